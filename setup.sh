#!/bin/bash
# Builds the monitor binaries offline from /verif/harness + /repo (also warms the
# Go build cache, incl. the race-instrumented standard library).
set -eu
cd "$(dirname "${BASH_SOURCE[0]}")"
export GOFLAGS=-mod=mod GOPROXY=off GOSUMDB=off GOTOOLCHAIN=local
mkdir -p bin work evidence replays
(cd harness && go build -tags verif -o ../bin/ruxmon ./cmd/ruxmon)
(cd harness && go build -race -tags verif -o ../bin/ruxmon-race ./cmd/ruxmon)
echo "setup ok: $(ls bin)"
