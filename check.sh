#!/bin/bash
# ./check.sh <ID> <quick|thorough> [--replay file]
#
# Rebuilds the monitor binary from /repo's current working tree (+ the harness,
# with the verif hooks compiled in) and runs the monitor of one property in a
# child process under a watchdog.
#   exit 0  property held on everything explored (KNOWN-FINDING lines may be printed)
#   exit 1  VIOLATION property=<ID> replay=<path>
#   exit 2  broken check / inconclusive run (never to be read as "held")
set -u
ID="${1:?usage: check.sh <ID> <quick|thorough> [--replay file]}"
TIER="${2:-quick}"
shift; shift || true

VERIF_DIR="$(cd "$(dirname "${BASH_SOURCE[0]}")" && pwd)"
export VERIF_DIR
export GOFLAGS=-mod=mod GOPROXY=off GOSUMDB=off GOTOOLCHAIN=local GONOSUMDB=* GONOSUMCHECK=1 GOFLAGS=-mod=mod
export VERIF_REPO="${VERIF_REPO:-/repo}"
export VERIF_OUT="${VERIF_OUT:-$VERIF_DIR}"   # evidence/, replays/, work/ go here
mkdir -p "$VERIF_DIR/bin" "$VERIF_OUT/work" "$VERIF_OUT/evidence" "$VERIF_OUT/replays"

HARNESS="$VERIF_DIR/harness"
MODFILE="$HARNESS/go.mod"
if [ "$VERIF_REPO" != "/repo" ]; then
  # testing the machinery against a scratch copy of the repository
  MODFILE="$VERIF_OUT/work/go.alt.$$.mod"
  sed "s#=> /repo#=> $VERIF_REPO#" "$HARNESS/go.mod" > "$MODFILE"
  cp "$HARNESS/go.sum" "${MODFILE%.mod}.sum"
  trap 'rm -f "$MODFILE" "${MODFILE%.mod}.sum"' EXIT
fi

build() { # $1 = output, rest = extra flags
  local out="$1"; shift
  (cd "$HARNESS" && go build -modfile="$MODFILE" -tags verif "$@" -o "$out" ./cmd/ruxmon) 2> "$VERIF_OUT/work/build.$ID.log"
}

BINDIR="$VERIF_DIR/bin"; [ "$VERIF_OUT" != "$VERIF_DIR" ] && BINDIR="$VERIF_OUT/bin" && mkdir -p "$BINDIR"
BIN="$BINDIR/ruxmon"
if ! build "$BIN"; then
  echo "BROKEN property=$ID: the harness does not build against $VERIF_REPO (see work/build.$ID.log)"
  head -20 "$VERIF_OUT/work/build.$ID.log"
  exit 2
fi

case "$ID" in
  C03)
    RBIN="$BINDIR/ruxmon-race"
    if ! build "$RBIN" -race; then
      echo "BROKEN property=$ID: the -race build failed (see work/build.$ID.log)"
      head -20 "$VERIF_OUT/work/build.$ID.log"
      exit 2
    fi
    export RUXMON_RACE_EXE="$RBIN"
    ;;
esac

exec "$BIN" run "$ID" "$TIER" "$@"
