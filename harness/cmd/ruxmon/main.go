// ruxmon runs one runtime monitor for one property of gookit/rux.
//
//	ruxmon run   <ID> <quick|thorough> [--replay file]   parent: spawns the child under a watchdog
//	ruxmon child <ID> <quick|thorough> [--replay file]   the monitor itself
package main

import (
	"encoding/json"
	"fmt"
	"os"
	"os/exec"
	"path/filepath"
	"strconv"
	"strings"
	"syscall"
	"time"

	"verifharness/mon"
)

func verifDir() string {
	if d := os.Getenv("VERIF_DIR"); d != "" {
		return d
	}
	return "/verif"
}

func outDir() string {
	if d := os.Getenv("VERIF_OUT"); d != "" {
		return d
	}
	return verifDir()
}

func seed() int64 {
	if v := os.Getenv("VERIF_SEED"); v != "" {
		if n, err := strconv.ParseInt(strings.TrimSpace(v), 10, 64); err == nil {
			return n
		}
	}
	return 1
}

func main() {
	if len(os.Args) < 4 {
		fmt.Fprintln(os.Stderr, "usage: ruxmon run|child <ID> <quick|thorough> [--replay file]")
		os.Exit(2)
	}
	mode, id, tier := os.Args[1], os.Args[2], os.Args[3]
	replay := ""
	for i := 4; i < len(os.Args); i++ {
		if os.Args[i] == "--replay" && i+1 < len(os.Args) {
			replay = os.Args[i+1]
			i++
		}
	}
	if tier != "quick" && tier != "thorough" {
		fmt.Fprintln(os.Stderr, "tier must be quick or thorough")
		os.Exit(2)
	}
	switch mode {
	case "child":
		os.Exit(child(id, tier, replay))
	case "run":
		os.Exit(parent(id, tier, replay))
	default:
		fmt.Fprintln(os.Stderr, "unknown mode", mode)
		os.Exit(2)
	}
}

func child(id, tier, replay string) int {
	f, ok := mon.Monitors[id]
	if !ok {
		fmt.Printf("BROKEN: no monitor for property %s\n", id)
		return mon.ExitInconclusive
	}
	e := mon.NewEnv(id, tier, seed(), verifDir(), outDir())
	if replay != "" {
		if err := e.SetReplay(replay); err != nil {
			fmt.Printf("BROKEN: cannot load replay file: %v\n", err)
			return mon.ExitInconclusive
		}
	}
	f(e)
	return e.Finish()
}

func parent(id, tier, replay string) int {
	vd := outDir()
	work := filepath.Join(vd, "work")
	_ = os.MkdirAll(work, 0o755)
	// remove stale journals / logs of this property
	old, _ := filepath.Glob(filepath.Join(work, id+".journal.*"))
	for _, p := range old {
		_ = os.Remove(p)
	}
	old, _ = filepath.Glob(filepath.Join(work, id+".race*"))
	for _, p := range old {
		_ = os.Remove(p)
	}
	logPath := filepath.Join(work, id+"."+tier+".log")
	logf, err := os.Create(logPath)
	if err != nil {
		fmt.Printf("BROKEN: %v\n", err)
		return 2
	}

	exe := os.Args[0]
	if alt := os.Getenv("RUXMON_CHILD_EXE"); alt != "" {
		exe = alt
	}
	args := []string{"child", id, tier}
	if replay != "" {
		args = append(args, "--replay", replay)
	}
	cmd := exec.Command(exe, args...)
	cmd.Stdout = logf
	cmd.Stderr = logf
	cmd.Env = append(os.Environ(), "GOTRACEBACK=all")
	watchdog := 20 * time.Minute
	if tier == "thorough" {
		watchdog = 120 * time.Minute
	}
	if v := os.Getenv("VERIF_WATCHDOG_S"); v != "" {
		if n, err := strconv.Atoi(v); err == nil && n > 0 {
			watchdog = time.Duration(n) * time.Second
		}
	}
	start := time.Now()
	if err := cmd.Start(); err != nil {
		fmt.Printf("BROKEN: cannot start child: %v\n", err)
		return 2
	}
	done := make(chan error, 1)
	go func() { done <- cmd.Wait() }()
	timedOut := false
	select {
	case err = <-done:
	case <-time.After(watchdog):
		timedOut = true
		_ = cmd.Process.Signal(syscall.SIGQUIT) // goroutine dump into the log
		select {
		case err = <-done:
		case <-time.After(20 * time.Second):
			_ = cmd.Process.Kill()
			err = <-done
		}
	}
	logf.Close()
	out, _ := os.ReadFile(logPath)
	code := 0
	if err != nil {
		if ee, ok := err.(*exec.ExitError); ok {
			code = ee.ExitCode()
		} else {
			code = -1
		}
	}

	// relay the child's verdict lines
	for _, ln := range strings.Split(string(out), "\n") {
		if strings.HasPrefix(ln, "VIOLATION ") || strings.HasPrefix(ln, "KNOWN-FINDING:") ||
			strings.HasPrefix(ln, "SUMMARY ") || strings.HasPrefix(ln, "INCONCLUSIVE ") ||
			strings.HasPrefix(ln, "BROKEN") || strings.HasPrefix(ln, "  signature=") ||
			strings.HasPrefix(ln, "  observed ") || strings.HasPrefix(ln, "REPLAY ") {
			fmt.Println(ln)
		}
	}

	switch {
	case timedOut:
		fmt.Printf("INCONCLUSIVE property=%s watchdog (%s) fired; see %s\n", id, watchdog, logPath)
		return 2
	case code == mon.ExitHeld:
		return 0
	case code == mon.ExitViolation:
		return 1
	case code == mon.ExitInconclusive:
		return 2
	}

	// Anything else: the child process died (Go runtime fatal error, uncaught panic
	// in a goroutine, signal). The router took the process down: that is a
	// violation, witnessed by the in-flight journal and the crash log.
	var inflight []string
	js, _ := filepath.Glob(filepath.Join(work, id+".journal.*"))
	for _, p := range js {
		if b, _ := os.ReadFile(p); len(b) > 0 {
			inflight = append(inflight, strings.TrimSpace(string(b)))
		}
	}
	tail := string(out)
	if len(tail) > 24<<10 {
		tail = tail[:24<<10] + "\n...[truncated]"
	}
	rf := mon.ReplayFile{
		Property: id, Tier: tier, Seed: seed(), Part: "process-crash", Index: -1,
		Sig:     "process-crash",
		Message: fmt.Sprintf("monitor process died with exit code %d after %.1fs; in-flight cases: %v", code, time.Since(start).Seconds(), inflight),
		Crash:   tail,
	}
	dir := filepath.Join(vd, "replays")
	_ = os.MkdirAll(dir, 0o755)
	name := filepath.Join(dir, fmt.Sprintf("%s-%d-crash.json", id, seed()))
	b, _ := json.MarshalIndent(rf, "", " ")
	_ = os.WriteFile(name, b, 0o644)
	first := ""
	for _, ln := range strings.Split(string(out), "\n") {
		if strings.HasPrefix(ln, "fatal error:") || strings.HasPrefix(ln, "panic:") {
			first = ln
			break
		}
	}
	fmt.Printf("VIOLATION property=%s replay=%s\n", id, name)
	fmt.Printf("  signature=process-crash: %s (in flight: %v)\n", first, inflight)
	return 1
}
