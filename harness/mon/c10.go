package mon

import (
	"context"
	"errors"
	"fmt"
	"io"
	"net/http"
	"sort"
	"strings"

	"github.com/gookit/rux"
)

func init() { Monitors["C10"] = runC10 }

type ctxKeyT string

var dirtyActions = []string{"set", "adderror", "replace-resp", "replace-req", "abort", "status", "write", "params", "sethandlers-noop", "header", "retain", "params-inplace", "query-mutate", "render-fail", "render-ok", "allowed-inplace", "redispatch", "hijack", "jsonp-unencodable", "json-ok", "jsonp-ok", "json-unencodable", "handover"}

// c10Renderer writes part of the page and then fails when asked to.
type c10Renderer struct{}

func (c10Renderer) Render(w io.Writer, name string, data any, c *rux.Context) error {
	_, _ = io.WriteString(w, "<h1>"+name+"</h1><p>")
	if data == "fail" {
		return errors.New("template execution failed half way")
	}
	_, _ = io.WriteString(w, fmt.Sprint(data)+"</p>")
	return nil
}

// retainSink collects what handlers kept beyond the end of their request
// (a Copy() of the context for background work, the Data() map).
type retainSink struct {
	copies []*rux.Context
	maps   []map[string]any
	writes int
}

// lateWrites: the background work of earlier requests touches what it retained -
// after the current request has been initialised, before its first handler looks
// at the context. None of it may be visible to the current request.
func lateWrites(rec *Rec) {
	sink, _ := rec.Extra["retain_sink"].(*retainSink)
	if sink == nil {
		return
	}
	for i, cp := range sink.copies {
		sink.writes++
		cp.Set(fmt.Sprintf("late-write-to-copy-%d", i), sink.writes)
		// ... and it marks its copy as failed: a status and the abort flag of the COPY
		cp.AbortWithStatus(599)
		cp.AddError(errors.New("background job of an earlier request failed"))
	}
	for i, m := range sink.maps {
		if m != nil {
			sink.writes++
			m[fmt.Sprintf("late-write-to-data-map-%d", i)] = sink.writes
		}
	}
}

// dirtyContext performs context mutations a handler can perform.
func dirtyContext(c *rux.Context, rec *Rec, actions []string) {
	for _, a := range actions {
		switch a {
		case "set":
			for i := 0; i < 5; i++ {
				c.Set(fmt.Sprintf("dirty-%d", i), i)
			}
		case "adderror":
			c.AddError(errors.New("dirty error 1"))
			c.AddError(errors.New("dirty error 2"))
		case "replace-resp":
			c.Resp = NewRec() // later writes of this request go to another writer
		case "replace-req":
			c.Req = c.Req.WithContext(context.WithValue(c.Req.Context(), ctxKeyT("k"), "v"))
		case "abort":
			c.Abort()
		case "status":
			c.SetStatus(418)
		case "write":
			_, _ = c.Resp.Write([]byte("dirty"))
		case "params":
			c.Params = rux.Params{"dirty": "1", "id": "overwritten"}
		case "params-inplace":
			// the handler edits the parameter map it was given (not a fresh one)
			if c.Params != nil {
				c.Params["id"] = "edited-in-place"
				c.Params["added-in-place"] = "x"
			}
		case "allowed-inplace":
			// a not-allowed handler edits the list of allowed methods it was given
			if v, ok := c.Get(rux.CTXAllowedMethods); ok {
				if list, _ := v.([]string); len(list) > 0 {
					list[0] = "EDITED"
					c.Set(rux.CTXAllowedMethods, list[:0])
				}
			}
		case "redispatch":
			// internal redirect: the handler has the router dispatch this request once more
			// (the arming header is removed first, so the second dispatch is a plain one)
			c.Req.Header.Del("X-Dirty")
			c.Router().HandleContext(c)
		case "handover":
			// the handler hands the request over to another router (an api sub-router that is no
			// http.Handler mount): that router dispatches the context the main router owns
			c.Req.Header.Del("X-Dirty")
			sub := rux.New()
			sub.NotFound(func(c *rux.Context) { c.SetStatus(204) })
			sub.HandleContext(c)
		case "hijack":
			// the handler takes over the connection (websocket style) through the writer it was given
			if hj, ok := c.Resp.(http.Hijacker); ok {
				if conn, _, err := hj.Hijack(); err == nil && conn != nil {
					_ = conn.Close()
				}
			}
		case "query-mutate":
			// the handler edits the parsed query values it was given
			q := c.QueryValues()
			q.Set("page", "99")
			q.Del("sort")
			q.Add("added", "x")
			if vs, ok := c.QueryParams("tag"); ok && len(vs) > 0 {
				vs[0] = "edited"
			}
		case "jsonp-unencodable":
			c.JSONP(200, "leakedCallback", map[string]any{"ch": make(chan int)}) // the encoder refuses the value half way
		case "json-unencodable":
			c.JSON(200, map[string]any{"secret-of-an-earlier-request": "x", "f": func() {}})
		case "json-ok":
			c.JSON(200, map[string]any{"a": 1, "s": "<ok>"})
		case "jsonp-ok":
			c.JSONP(200, "cb", map[string]any{"a": 1})
		case "render-fail":
			_ = c.Render(200, "page", "fail")
		case "render-ok":
			_ = c.Render(200, "page", "ok")
		case "header":
			c.SetHeader("X-Dirty-Resp", "1")
		case "retain":
			if sink, _ := rec.Extra["retain_sink"].(*retainSink); sink != nil {
				c.Set("retained-by-earlier-request", true)
				sink.copies = append(sink.copies, c.Copy())
				sink.maps = append(sink.maps, c.Data())
			}
		}
		rec.Ev("dirty(%s)", a)
	}
}

// snapshot of the context as the first handler of a request finds it
func ctxSnapshot(c *rux.Context, rec *Rec) string {
	var keys []string
	for k := range c.Data() {
		keys = append(keys, k)
	}
	sort.Strings(keys)
	ownReq := false
	if want, ok := rec.Extra["req"]; ok {
		ownReq = want == any(c.Req)
	}
	ownRouter := true
	if want, ok := rec.Extra["router"]; ok {
		ownRouter = want == any(c.Router())
	}
	qv := c.QueryValues()
	var qk []string
	for k, vs := range qv {
		qk = append(qk, k+"="+strings.Join(vs, "|"))
	}
	sort.Strings(qk)
	allowed := "<unset>"
	if v, ok := c.Get(rux.CTXAllowedMethods); ok {
		list, _ := v.([]string)
		list = append([]string{}, list...)
		sort.Strings(list)
		allowed = strings.Join(list, ",")
	}
	// what the getters derive from the request of THIS exchange (a memoised answer of an earlier
	// request would show here)
	derived := fmt.Sprintf("accepted=%q ctype=%q ajax=%v websocket=%v client_ip=%q get=%v post=%v",
		c.AcceptedTypes(), c.ContentType(), c.IsAjax(), c.IsWebSocket(), c.ClientIP(), c.IsGet(), c.IsPost())
	return derived + " " + fmt.Sprintf("query=%v page=%q allowed=%s data=%v params={%s} params_nil=%v errors=%d errors_nil=%v errors_spare_capacity=%d first_error=%v aborted=%v status=%d length=%d resp_type=%T raw_writer_is_own=%v req_is_own=%v handler_nil=%v router_is_own=%v",
		qk, c.Query("page"), allowed, keys, fmtParams(copyParams(c.Params)), c.Params == nil, len(c.Errors), c.Errors == nil, cap(c.Errors)-len(c.Errors), c.FirstError(), c.IsAborted(), c.StatusCode(), c.Length(),
		c.Resp, c.RawWriter() == any(rec), ownReq, c.Handler() == nil, ownRouter)
}

func snapMW(c *rux.Context) {
	rec := recOf(c)
	if rec.Extra == nil {
		rec.Extra = map[string]any{}
	}
	lateWrites(rec)
	rec.Extra["snapshot"] = ctxSnapshot(c, rec)
	rec.CtxPtr = c
}

func runC10(e *Env) {
	e.Rule = "request histories (10..60 requests) on one router built from a generated registration program with an always-first snapshot middleware (or, on routers without any global middleware, the first instrumented handler of the chain snapshots); requests mix static, dynamic, 404, 405 routes; per request a designated handler performs dirtying actions drawn from {Set many keys, AddError x2, replace c.Resp, replace c.Req, Abort, SetStatus, write, assign Params, edit the Params map in place, edit the parsed query values, render a template (successfully or failing half way), set a response header, retain a Copy() of the context and its Data() map for 'background work' that writes to them while later requests are being served}, or panics (with an OnPanic hook, or without one so that the panic escapes ServeHTTP and is recovered by the caller), or serves a nested request. Observed by the first handler of every request: parsed query values, Data keys, Params, Errors, IsAborted, StatusCode, Length, type of c.Resp, RawWriter is this request's writer, c.Req is this request, Handler() non-nil, *Context pointer. Oracle (twin): the snapshot and the outcome of the k-th request equal those of the same request sent as the FIRST request to a freshly built identical router. Pooled-context reuse is measured by pointer identity; zero reuse => inconclusive. Non-trivial: a request served by a reused context whose previous user dirtied it; distinct by (program, history prefix). Further actions: edit the allowed-methods list in place, re-dispatch through HandleContext, hand the request over to another router's HandleContext (the snapshot includes whether c.Router() is the serving router), hijack the connection; a quarter of the requests arrive with the very writer object of the previous request (a server layer that recycles its writers); routes without variables but with an optional part; the snapshot also shows the allowed list and the nil-ness of Params and is checked for markers only an earlier handler can have written. The dirtying actions include JSON/JSONP responses of encodable and unencodable values (whatever a failed encoding left behind must not show in a later body). About half of the requests carry Accept / Content-Type / X-Requested-With / Upgrade / X-Forwarded-For / X-Real-Ip headers and the snapshot includes what AcceptedTypes, ContentType, IsAjax, IsWebSocket, ClientIP, IsGet, IsPost answer (derived from this request, not from an earlier one)."
	e.Assumptions = []string{
		"sequential histories: sync.Pool hands the same *Context back almost always (measured, not assumed)",
		"a fresh identical router is the specification of 'pristine'",
	}
	e.RunCases("histories", e.N(2500, 400000), 0, c10Case)
	e.Require("ctx.reused", 10000)
	e.Require("ctx.reused_after_dirty", 5000)
	e.Require("dirty.replace-resp", 300)
	e.Require("dirty.abort", 300)
	e.Require("dirty.panic_with_hook", 300)
	e.Require("dirty.panic_escaping", 100)
	e.Require("dirty.retain", 300)
	e.Require("dirty.query-mutate", 300)
	e.Require("dirty.render-fail", 300)
	e.Require("kind.not_found", 300)
	e.Require("kind.not_allowed", 100)
}

func c10Case(t *T) {
	r := t.R
	// half of the routers have no global middleware at all (then the per-request
	// chain is not rebuilt around the globals and the first route/fallback handler snapshots)
	noGlobal := chance(r, 1, 2)
	g := &progGen{maxDepth: 2, dynamic: true, noGlobal: noGlobal, optOnly: true}
	p := GenProgram(r, g)
	armPanics(p)
	hookOn := chance(r, 2, 3) // without a hook a panic escapes ServeHTTP (the driver recovers it) and the history goes on
	var histDesc []string
	t.Describe(func() any {
		d := p.Describe().(map[string]any)
		d["history"] = histDesc
		d["snapshot_global_middleware"] = !noGlobal
		d["OnPanic_hook"] = hookOn
		return d
	})
	build := func() *rux.Router {
		router := p.Build(func(rt *rux.Router) {
			if !noGlobal {
				rt.Use(snapMW)
			}
		})
		router.Renderer = c10Renderer{}
		if hookOn {
			router.OnPanic = func(c *rux.Context) {
				recOf(c).Ev("hook")
				c.SetStatus(500)
			}
		}
		return router
	}
	sink := &retainSink{}
	var router *rux.Router
	if pv, panicked := catch(func() { router = build() }); panicked {
		t.Fail("registration-panic", "a valid registration program panicked: %v", pv)
		return
	}
	t.AutoSample()
	reqs := c09Requests(p, t)
	var reuseRec *Rec // when set: the next send hands this very writer object to the router again
	send := func(rt *rux.Router, q c09Req, hdr map[string]string, sk *retainSink) (*Rec, any, bool) {
		req := NewReq(q.Method, q.Path)
		for k, v := range hdr {
			req.Header.Set(k, v)
		}
		req.URL.RawQuery = hdr["X-RawQuery"]
		rec := NewRec()
		if reuseRec != nil {
			// the server layer in front recycles its writer object: the very same value as for the previous request
			*reuseRec = Rec{H: http.Header{}}
			rec = reuseRec
			reuseRec = nil
		}
		rec.Extra = map[string]any{"req": req, "want_snapshot": true, "retain_sink": sk, "router": rt}
		pv, panicked := catch(func() { rt.ServeHTTP(rec, req) })
		return rec, pv, panicked
	}
	var prevRec *Rec
	seen := map[*rux.Context]bool{}
	prevDirty := false
	n := 10 + r.IntN(51)
	for k := 0; k < n; k++ {
		q := pick(r, reqs)
		hdr := map[string]string{}
		dirty := false
		if len(q.Chain) > 0 && chance(r, 2, 3) {
			site := pick(r, q.Chain)
			switch x := r.IntN(10); {
			case x < 7:
				na := 1 + r.IntN(3)
				var acts []string
				for i := 0; i < na; i++ {
					acts = append(acts, pick(r, dirtyActions))
				}
				hdr["X-Dirty"] = site.ID + "|" + strings.Join(acts, ",")
				for _, a := range acts {
					t.Count("dirty."+a, 1)
				}
			case x < 9:
				hdr["X-Panic"] = site.ID + ":" + pick(r, []string{"pre", "post"})
				hdr["X-Panic-Val"] = "string"
				hdr["X-Panic-Pre"] = pick(r, []string{"", "status", "write", "adderror"})
				if hookOn {
					t.Count("dirty.panic_with_hook", 1)
				} else {
					t.Count("dirty.panic_escaping", 1)
				}
			default:
				in := pick(r, reqs)
				hdr["X-Nest"] = site.ID + "|" + in.Method + "|" + in.Path
				t.Count("dirty.nested_request", 1)
			}
			dirty = true
		}
		hdr["X-RawQuery"] = pick(r, []string{"", "", "page=1&sort=asc&tag=a", "page=1&sort=asc&tag=a", "q=x"})
		// headers the request-derived getters read; absent for about half of the requests
		for _, hv := range [][]string{
			{"Accept", "application/json", "text/html, application/xml;q=0.9, */*;q=0.8", "text/plain"},
			{"Content-Type", "application/json", "application/x-www-form-urlencoded"},
			{"X-Requested-With", "XMLHttpRequest"},
			{"Upgrade", "websocket"},
			{"Connection", "Upgrade", "keep-alive, Upgrade"},
			{"X-Forwarded-For", "10.1.2.3, 10.0.0.1", "192.168.7.7"},
			{"X-Real-Ip", "172.16.0.9"},
		} {
			if chance(r, 1, 2) {
				hdr[hv[0]] = pick(r, hv[1:])
				t.Count("header."+hv[0], 1)
			}
		}
		t.Count("kind."+q.Kind, 1)
		histDesc = append(histDesc, fmt.Sprintf("#%d %s %v", k, q, hdr))

		if prevRec != nil && len(sink.copies) == 0 && chance(r, 1, 4) {
			reuseRec = prevRec // (nothing of an earlier request still holds that writer)
			t.Count("history.same_writer_object_as_previous_request", 1)
		}
		rec, pv, panicked := send(router, q, hdr, sink)
		prevRec = rec
		fresh := build()
		frec, fpv, fpanicked := send(fresh, q, hdr, &retainSink{})

		if rec.CtxPtr != nil {
			if seen[rec.CtxPtr] {
				t.Count("ctx.reused", 1)
				if prevDirty {
					t.Count("ctx.reused_after_dirty", 1)
					t.NonTrivial(fmt.Sprint(p.Describe(), histDesc))
				}
			}
			seen[rec.CtxPtr] = true
		}
		prevDirty = dirty

		t.Tracef("#%d %s ctx=%p snapshot: %s", k, q, rec.CtxPtr, rec.Extra["snapshot"])
		if panicked != fpanicked {
			t.Fail("panic-differs", "request #%d %s: panicked=%v (%v) on the used router, %v (%v) as the first request of a fresh router", k, q, panicked, pv, fpanicked, fpv)
			return
		}
		s1, _ := rec.Extra["snapshot"].(string)
		s2, _ := frec.Extra["snapshot"].(string)
		// independent of the twin (which shares this process): nothing an earlier handler put
		// into a parameter map or an allowed-methods list may be there when a request starts
		for _, mark := range []string{"added-in-place", "edited-in-place", "overwritten", "EDITED"} {
			if strings.Contains(s1, mark) || strings.Contains(s2, mark) {
				t.Fail("context-not-pristine:marker-of-earlier-handler", "request #%d %s: the first handler finds %q, which only a handler of an earlier request (of this or another router) can have put there.\n observed: %s\n fresh router: %s", k, q, mark, s1, s2)
				return
			}
		}
		if s1 != s2 {
			t.Fail("context-not-pristine:"+snapshotDiff(s1, s2), "request #%d %s started from a context that is not pristine.\n observed at the first handler: %s\n on a fresh router:             %s\n previous request: %s", k, q, s1, s2, prevOf(histDesc))
			return
		}
		if rec.Outcome() != frec.Outcome() {
			t.Fail("outcome-differs", "request #%d %s behaves differently than as the first request on a fresh identical router:\n used router: %s\n fresh:       %s\n previous request: %s", k, q, rec.Outcome(), frec.Outcome(), prevOf(histDesc))
			return
		}
		in1, _ := rec.Extra["nested_rec"].(*Rec)
		in2, _ := frec.Extra["nested_rec"].(*Rec)
		if (in1 == nil) != (in2 == nil) || (in1 != nil && in1.Outcome() != in2.Outcome()) {
			t.Fail("nested-outcome-differs", "request #%d %s: the nested request behaves differently than on a fresh router:\n used: %s\n fresh: %s", k, q, outcomeOf(in1), outcomeOf(in2))
			return
		}
		if same, _ := rec.Extra["nested_same_ctx"].(bool); same {
			t.Fail("nested-request-shares-context", "request #%d %s and the request served inside it were handed the same *Context", k, q)
			return
		}
	}
}

func prevOf(h []string) string {
	if len(h) < 2 {
		return "<none>"
	}
	return h[len(h)-2]
}

// snapshotDiff names the first field that differs (machine signature).
func snapshotDiff(a, b string) string {
	fa, fb := strings.Fields(a), strings.Fields(b)
	for i := 0; i < len(fa) && i < len(fb); i++ {
		if fa[i] != fb[i] {
			if j := strings.IndexByte(fa[i], '='); j > 0 {
				return fa[i][:j]
			}
			return "field"
		}
	}
	return "length"
}
