package mon

import (
	"fmt"
	"math/rand/v2"
	"net/http"
	"net/url"
	"os"
	"path/filepath"
	"strings"
	"sync"

	"github.com/gookit/rux"
	"github.com/gookit/rux/pkg/handlers"
)

func init() { Monitors["C17"] = runC17 }

type c17Tree struct {
	Base    string            // sandbox directory
	Root    string            // the configured root
	Inside  map[string]string // relative path under root -> content
	Outside map[string]string // path relative to Base -> content (each with a canary)
	// a second root: the dot-directory Root/.pub, with a decoy directory Root/pub next to it whose
	// files have the same names and carry canaries (nothing in the request grammar spells "pub")
	AltRoot   string
	AltInside map[string]string
}

var (
	c17Once sync.Once
	c17T    *c17Tree
	c17Err  error
)

const c17Canary = "CANARY-OUTSIDE-THE-ROOT"

func c17Setup(workDir string) (*c17Tree, error) {
	c17Once.Do(func() {
		base := filepath.Join(workDir, fmt.Sprintf("c17-%d", os.Getpid()))
		_ = os.RemoveAll(base)
		t := &c17Tree{Base: base, Root: filepath.Join(base, "root"), Inside: map[string]string{}, Outside: map[string]string{}}
		inside := []string{"a.css", "c.txt", "sub/b.js", "sub/deep/d.css", ".hidden", "styles.scss", "app.mjs", "nojs", "sub/x.tcss", "index.html", "x y.css", "sub/readme"}
		for _, f := range inside {
			t.Inside[f] = "INSIDE[" + f + "] some bytes of this file\n"
		}
		outside := []string{"secret.txt", "secret.js", "config.css", "rootx/s.css", "root.bak/a.css", "a.css", "index.html", "private/index.html"}
		for i, f := range outside {
			t.Outside[f] = fmt.Sprintf("%s-%d content of %s\n", c17Canary, i, f)
		}
		write := func(dir string, files map[string]string) error {
			for f, c := range files {
				p := filepath.Join(dir, filepath.FromSlash(f))
				if err := os.MkdirAll(filepath.Dir(p), 0o755); err != nil {
					return err
				}
				if err := os.WriteFile(p, []byte(c), 0o644); err != nil {
					return err
				}
			}
			return nil
		}
		if err := write(t.Root, t.Inside); err != nil {
			c17Err = err
			return
		}
		if err := write(base, t.Outside); err != nil {
			c17Err = err
			return
		}
		t.AltRoot, t.AltInside = filepath.Join(t.Root, ".pub"), map[string]string{}
		decoy := map[string]string{}
		for i, f := range []string{"a.css", "c.txt", "sub/b.js", "index.html"} {
			t.AltInside[f] = "INSIDE-DOT-PUB[" + f + "] some bytes of this file\n"
			decoy[f] = fmt.Sprintf("%s-decoy-%d content of pub/%s\n", c17Canary, i, f)
		}
		if err := write(t.AltRoot, t.AltInside); err != nil {
			c17Err = err
			return
		}
		if err := write(filepath.Join(t.Root, "pub"), decoy); err != nil {
			c17Err = err
			return
		}
		c17T = t
	})
	return c17T, c17Err
}

var c17Segs = []string{"..", ".", "", "%2e%2e", "..%2f", "%2F", "\\", "..\\", "%00", "\x00", "a.css", "c.txt", "sub", "deep", "b.js", "d.css", ".hidden", "secret.txt", "secret.js", "config.css", "rootx", "s.css", "root.bak", "root", "styles.scss", "app.mjs", "nojs", "x.tcss", "a.css.", "a.css ", "A.CSS", "index.html", "x y.css", "..;", "%2e", "%252e%252e", "....//", "a.css%00.txt", "c.txt.css", "readme", "%5c..", "..%5c", "c.txt%3F.css", "c.txt%23.js", "styles.scss%3Fv=1.css", "c.txt%3F", "%23.css", "sub%3F", "c.txt;.css", "c.txt%26.js", "a.css%3F.txt", "b.js%3Fx=1", "a.css%3F", "d.css%3Fv=2.md", "a.css%23.txt"}

func c17Path(r *rand.Rand, prefix string, t *c17Tree) string {
	var segs []string
	switch r.IntN(10) {
	case 0: // a plain inside file
		ks := []string{"a.css", "sub/b.js", "sub/deep/d.css", "c.txt", "styles.scss", "x y.css"}
		return prefix + "/" + pick(r, ks)
	case 1: // climb out with enough dot-dots, target an outside file
		n := 1 + r.IntN(5)
		dd := pick(r, []string{"..", "%2e%2e", "..%2f..", ".%2e", "%2e."})
		for i := 0; i < n; i++ {
			segs = append(segs, dd)
		}
		if chance(r, 1, 2) {
			segs = append([]string{pick(r, []string{"sub", "sub/deep", "."})}, segs...)
		}
		segs = append(segs, pick(r, []string{"secret.txt", "secret.js", "config.css", "rootx/s.css", "root.bak/a.css", "a.css", "index.html", "private/index.html"}))
		return prefix + "/" + strings.Join(segs, "/")
	case 2: // absolute component
		return prefix + "/" + pick(r, []string{"/", "//", ""}) + strings.TrimPrefix(filepath.ToSlash(t.Base), "/") + "/" + pick(r, []string{"secret.txt", "secret.js", "root/a.css"})
	case 3: // over-long chain
		return prefix + "/" + strings.Repeat("../", 10+r.IntN(40)) + strings.TrimPrefix(filepath.ToSlash(t.Base), "/") + "/secret.js"
	}
	n := 1 + r.IntN(5)
	for i := 0; i < n; i++ {
		segs = append(segs, pick(r, c17Segs))
	}
	p := prefix + "/" + strings.Join(segs, "/")
	if chance(r, 1, 6) {
		p = strings.Replace(p, prefix, prefix+pick(r, []string{"/", "x", "/../" + strings.TrimPrefix(prefix, "/")}), 1)
	}
	return p
}

func runC17(e *Env) {
	// an application-wide path variable with the name StaticFiles uses for its own, stricter one
	rux.SetGlobalVar("file", `[\w.-]+`)
	e.Rule = "a sandbox tree (root with css/js/txt files, nested directories, a hidden file, files whose names end in the letters of an allowed extension without the dot; next to the root: secrets with and without allowed extensions, sibling directories rootx and root.bak, a same-named a.css, index.html pages) - every outside file carries a canary token; routers with StaticDir, StaticFiles (css|js, css), StaticFS(http.Dir), StaticFile under prefixes /s and /assets/v1 (also registered inside a group), the root spelled absolutely or relative to the working directory ('' and '.'), with/without UseEncodedPath and StrictLastSlash; request paths from a grammar of hostile segments (.., ., empty, %2e%2e, ..%2f, %2F, back-slashes, %00, NUL, trailing dots/blanks, case variants, absolute paths, over-long ../ chains, names of outside files), sent both as raw URL.Path (no client-side cleaning) and as escaped request targets parsed like a server. Oracle: no response body contains a canary or the name of an outside file; a 200 body that is not a directory listing equals a file under the root byte for byte; StaticFiles answers 200 only when the matched path ends in '.'+allowed extension; StaticFile returns only the configured file; no panic. Non-trivial: a path containing a dot-dot/encoded/absolute component or an outside name; distinct by (configuration, path). A second root is the dot-directory root/.pub (spelled absolutely or relatively) next to a decoy directory root/pub with same-named canary files; a global path variable named file is registered; segments with encoded ? and # behind forbidden file names; a file served by StaticFiles must itself carry an allowed extension. A third of the routers have a route cache of two entries and a second StaticFiles mount (/zz) with the other root; after the hostile requests: a file of the mount under test, two files of /zz, the first again. Every response must reach the writer as exactly one WriteHeader before any body byte. StaticFiles routers also have /legacy/{file}, re-dispatched internally to <prefix>/<file>.css (the extension filter applies to what is served). A fifth of the routers have pkg/handlers.PanicsHandler in front and an /export route that writes private bytes and panics; it is requested before every checked request. Relative dot-directory roots are mounted after a StaticDir of the similarly named decoy directory pub. Cached StaticFiles routers finally get two very long spellings (a few hundred bytes of ./ in front of a.css, then of c.txt): the second is not served."
	e.Assumptions = []string{
		"symlinks inside the root pointing outside are not part of the statement's tree (http.Dir follows them by design)",
		"directory listings (FileServer) are allowed as long as they list nothing outside the root",
	}
	tree, err := c17Setup(e.WorkDir)
	if err != nil {
		e.Inconclusive("cannot create the sandbox tree: %v", err)
		return
	}
	defer os.RemoveAll(tree.Base)
	// the process works inside the root, so that relative roots ("" and ".") mean the sandbox root
	if wd, err := os.Getwd(); err == nil {
		defer os.Chdir(wd)
	}
	if err := os.Chdir(tree.Root); err != nil {
		e.Inconclusive("cannot chdir into the sandbox root: %v", err)
		return
	}
	mainByContent, altByContent := map[string]string{}, map[string]string{}
	for f, c := range tree.Inside {
		mainByContent[c] = f
	}
	for f, c := range tree.AltInside {
		altByContent[c] = f
	}
	e.RunCases("requests", e.N(20000, 4000000), 0, func(t *T) {
		r := t.R
		kind := pick(r, []string{"StaticDir", "StaticFiles", "StaticFiles", "StaticFS", "StaticFile"})
		prefix := pick(r, []string{"/s", "/assets/v1", "/root"}) // "/root": the URL prefix equals the last element of the root directory
		exts := pick(r, []string{"css|js", "css"})
		encoded, strict := chance(r, 1, 3), chance(r, 1, 4)
		var opts []func(*rux.Router)
		if encoded {
			opts = append(opts, rux.UseEncodedPath)
		}
		if strict {
			opts = append(opts, rux.StrictLastSlash)
		}
		cached := chance(r, 1, 3) // a small route cache; a second static mount with another root competes for it
		if cached {
			opts = append(opts, rux.CachingWithNum(2))
			t.Count("requests.router_with_route_cache_and_second_mount", 1)
		}
		router := rux.New(opts...)
		withRecovery := chance(r, 1, 5)
		if withRecovery {
			// the stock recovery middleware in front of everything, and an export endpoint of the application
			// that fails half way through private data; it is requested before every checked request
			router.Use(handlers.PanicsHandler())
			router.GET("/export", func(c *rux.Context) {
				_, _ = c.Resp.Write([]byte(c17Canary + " private export, first half"))
				panic("export failed half way")
			})
			t.Count("requests.after_a_recovered_panic_of_another_route", 1)
		}
		staticFileTarget := "c.txt"
		// the root spelled absolutely or relative to the working directory (= the sandbox root)
		rootSpelling := pick(r, []string{tree.Root, tree.Root, "", ".", "./"})
		rootAbs, inside, insideByContent, relDir := tree.Root, tree.Inside, mainByContent, ""
		if chance(r, 1, 5) {
			// the dot-directory root, spelled absolutely or relative to the working directory
			rootAbs, inside, insideByContent, relDir = tree.AltRoot, tree.AltInside, altByContent, ".pub/"
			rootSpelling = pick(r, []string{tree.AltRoot, ".pub", ".pub", "./.pub", ".pub/"})
			t.Count("requests.dot_directory_root", 1)
		}
		inGroup := chance(r, 1, 5) && (kind == "StaticFiles" || kind == "StaticFile")
		regPrefix := prefix
		reg := func(f func()) { f() }
		if inGroup {
			// registered inside a group: the request prefix is group prefix + registered prefix
			regPrefix = "/in"
			prefix = "/grp/in"
			reg = func(f func()) { router.Group("/grp", f) }
		}
		if relDir != "" && rootSpelling != rootAbs && (kind == "StaticDir" || kind == "StaticFiles") {
			// another static mount registered before: the decoy directory "pub", whose name differs from the root
			// ".pub" (".pub/", "./.pub") only by dots and slashes at its ends. Every mount serves its own directory.
			router.StaticDir("/decoy-mount", "pub")
			t.Count("requests.mount_of_a_similarly_named_directory_first", 1)
		}
		if chance(r, 1, 4) {
			// an upload endpoint registered BEFORE the static handler: same prefix, same variable
			// name, another method and a laxer regex. It must not influence what GET serves.
			reg(func() {
				router.POST(regPrefix+"/{file}", func(c *rux.Context) { c.SetStatus(201) })
			})
			t.Count("requests.with_sibling_upload_route", 1)
		}
		switch kind {
		case "StaticDir":
			reg(func() { router.StaticDir(regPrefix, rootSpelling) })
		case "StaticFiles":
			reg(func() { router.StaticFiles(regPrefix, rootSpelling, exts) })
		case "StaticFS":
			reg(func() { router.StaticFS(regPrefix, http.Dir(rootSpelling)) })
		default:
			staticFileTarget = pick(r, []string{"c.txt", "a.css", "sub/b.js"})
			target := filepath.Join(rootAbs, filepath.FromSlash(staticFileTarget))
			if rootSpelling != rootAbs {
				target = filepath.FromSlash(relDir + staticFileTarget) // relative to the working directory
			}
			reg(func() { router.StaticFile(regPrefix+"/file", target) })
		}
		if cached {
			other := tree.AltRoot
			if rootAbs == tree.AltRoot {
				other = tree.Root
			}
			router.StaticFiles("/zz", other, "css|js")
		}
		if kind == "StaticFiles" {
			// an old URL scheme kept alive by an internal rewrite: /legacy/<name> is re-dispatched to <prefix>/<name>.css
			router.GET("/legacy/{file}", func(c *rux.Context) {
				c.Req.URL.Path = prefix + "/" + c.Param("file") + ".css"
				c.Req.URL.RawPath = ""
				c.Router().HandleContext(c)
			})
		}
		var cur string
		t.Describe(func() any {
			return map[string]any{"route_cache(2)_and_second_mount_/zz_with_the_other_root": cached, "handler": kind, "prefix": prefix, "exts": exts, "UseEncodedPath": encoded, "StrictLastSlash": strict, "root": rootAbs, "root_spelled_as": rootSpelling, "registered_in_group": inGroup, "request": cur}
		})
		t.AutoSample()
		for i := 0; i < 12; i++ {
			p := c17Path(r, prefix, tree)
			if kind == "StaticFile" && chance(r, 1, 2) {
				p = prefix + "/file" + pick(r, []string{"", "/", "//", "/../../secret.txt", "?x=../secret.txt", "/%2e%2e/secret.txt", " "})
				if chance(r, 1, 6) {
					p = "/" + p // repeated leading slash: normalised away by the router
				}
			}
			var req *http.Request
			mode := "raw-path"
			if chance(r, 1, 2) {
				// escaped request target, parsed the way a server does
				u, err := url.ParseRequestURI(strings.ReplaceAll(strings.ReplaceAll(p, " ", "%20"), "\x00", "%00"))
				if err != nil {
					continue
				}
				mode = "parsed-target"
				req = &http.Request{Method: "GET", URL: u, Header: http.Header{}, Body: http.NoBody, RequestURI: p, Proto: "HTTP/1.1", ProtoMajor: 1, ProtoMinor: 1, Host: "example.test"}
			} else {
				pp := p
				for _, esc := range [][2]string{{"%2e", "."}, {"%2f", "/"}, {"%2F", "/"}, {"%5c", "\\"}, {"%00", "\x00"}} {
					if chance(r, 1, 2) {
						pp = strings.ReplaceAll(pp, esc[0], esc[1])
					}
				}
				req = NewReq("GET", pp)
			}
			if chance(r, 1, 8) {
				req.Method = "HEAD"
			}
			cur = fmt.Sprintf("%s %s %q (URL.Path %q RawPath %q)", mode, req.Method, p, req.URL.Path, req.URL.RawPath)
			t.Count("requests.sent", 1)
			hostile := strings.Contains(p, "..") || strings.Contains(p, "%2e") || strings.Contains(p, "secret") || strings.Contains(p, "rootx") || strings.Contains(p, tree.Base) || strings.Contains(p, "\\")
			if hostile {
				t.Count("requests.hostile", 1)
				t.NonTrivial(kind + prefix + exts + fmt.Sprint(encoded, strict) + p + mode)
			}
			// (the static handlers rewrite Request.URL.Path: keep what was asked for)
			askedPath, askedEscaped := req.URL.Path, req.URL.EscapedPath()
			if withRecovery {
				_, _, _ = Serve(router, NewReq("GET", "/export"))
			}
			rec, pv, panicked := Serve(router, req)
			if panicked {
				t.Fail("servehttp-panics", "%s on %s(%s): panicked: %v", cur, kind, prefix, pv)
				return
			}
			body := rec.Body.String()
			status := rec.Status()
			t.Tracef("%s -> status %d body %q", cur, status, truncate(body, 60))
			if rec.NumWH() != 1 || (len(rec.Calls) > 0 && rec.Calls[0].Kind != "WH") {
				// (the static handlers answer through the request's response writer like any handler)
				t.Fail("static-handler-header-commits", "%s on %s(%s): the writer saw %s - expected exactly one WriteHeader, before any body byte", cur, kind, prefix, rec.CallLog())
				return
			}
			if strings.Contains(body, c17Canary) {
				t.Fail("outside-content-served", "%s on %s(%s, root %s): the response (status %d) contains bytes of a file outside the root: %q", cur, kind, prefix, rootAbs, status, truncate(body, 120))
				return
			}
			if status == 200 {
				t.Count("requests.status_200", 1)
				for _, name := range []string{"secret.txt", "secret.js", "config.css", "rootx", "root.bak"} {
					if strings.Contains(body, name) {
						t.Fail("outside-names-listed", "%s on %s(%s): a 200 response lists %q, which lives outside the root: %q", cur, kind, prefix, name, truncate(body, 200))
						return
					}
				}
				isListing := strings.Contains(body, "<pre>")
				if kind == "StaticFile" && req.Method != "HEAD" && body != inside[staticFileTarget] {
					t.Fail("staticfile-serves-other-content", "%s: StaticFile is configured for %q only, but answered 200 with %q", cur, staticFileTarget, truncate(body, 120))
					return
				}
				if req.Method == "HEAD" || isListing {
					continue
				}
				f, ok := insideByContent[body]
				if !ok {
					t.Fail("served-bytes-not-a-root-file", "%s on %s(%s): 200 with a body that is not the content of any file under the root: %q", cur, kind, prefix, truncate(body, 120))
					return
				}
				t.Count("requests.file_served", 1)
				switch kind {
				case "StaticFile":
					if f != staticFileTarget {
						t.Fail("staticfile-serves-other-file", "%s: StaticFile is configured for %q but served %q", cur, staticFileTarget, f)
						return
					}
				case "StaticFiles":
					matched := askedPath
					if encoded {
						matched = askedEscaped
					}
					matched = strings.TrimSpace(matched)
					if !strict {
						matched = strings.TrimRight(matched, "/")
					}
					okExt := false
					for _, x := range strings.Split(exts, "|") {
						if strings.HasSuffix(matched, "."+x) {
							okExt = true
						}
					}
					servedExt := false
					for _, x := range strings.Split(exts, "|") {
						if strings.HasSuffix(f, "."+x) {
							servedExt = true
						}
					}
					if !servedExt {
						t.Fail("extension-filter-bypassed:served-file", "%s on StaticFiles(%s, exts %q): served the content of %q, a file whose name does not end in an allowed extension", cur, prefix, exts, f)
						return
					}
					if !okExt {
						t.Fail("extension-filter-bypassed", "%s on StaticFiles(%s, exts %q): served %q although the request path does not end in an allowed extension", cur, prefix, exts, f)
						return
					}
				}
			}
		}
		if kind == "StaticFiles" {
			for _, name := range []string{"c.txt", "styles.scss", "nojs", "a"} {
				cur = fmt.Sprintf("GET /legacy/%s (re-dispatched to %s/%s.css)", name, prefix, name)
				lrec, lpv, lpan := Serve(router, NewReq("GET", "/legacy/"+name))
				t.Count("requests.legacy_rewrite", 1)
				if lpan {
					t.Fail("servehttp-panics", "%s: panicked: %v", cur, lpv)
					return
				}
				lb := lrec.Body.String()
				if strings.Contains(lb, c17Canary) {
					t.Fail("outside-content-served", "%s: the response contains bytes of a file outside the root: %q", cur, truncate(lb, 120))
					return
				}
				if lrec.Status() == 200 {
					// "a.css" exists (name "a"): fine; anything else served here is a file without an allowed extension
					if f, ok := insideByContent[lb]; !ok || !(strings.HasSuffix(f, ".css") || strings.HasSuffix(f, ".js") && exts == "css|js") {
						t.Fail("extension-filter-bypassed:served-file", "%s on StaticFiles(%s, exts %q): served %q (file %q)", cur, prefix, exts, truncate(lb, 80), f)
						return
					}
				}
			}
		}
		// with the cache: a file of this mount, two files of the other mount (the cache holds two entries), the first
		// one again - it must still be this root's file
		if cached && kind != "StaticFile" {
			pth := prefix + "/a.css"
			first, _, p1 := Serve(router, NewReq("GET", pth))
			_, _, _ = Serve(router, NewReq("GET", "/zz/a.css"))
			_, _, _ = Serve(router, NewReq("GET", "/zz/sub/b.js"))
			again, _, p2 := Serve(router, NewReq("GET", pth))
			cur = fmt.Sprintf("GET %q, GET /zz/a.css, GET /zz/sub/b.js, GET %q again", pth, pth)
			t.Count("requests.repeat_after_the_other_mount_filled_the_cache", 1)
			if p1 || p2 {
				t.Fail("servehttp-panics", "%s on %s(%s): panicked", cur, kind, prefix)
				return
			}
			if strings.Contains(again.Body.String(), c17Canary) {
				t.Fail("outside-content-served", "%s on %s(%s, root %s): the repeated request returned bytes of a file outside the root: %q", cur, kind, prefix, rootAbs, truncate(again.Body.String(), 120))
				return
			}
			if again.Status() != first.Status() || again.Body.String() != first.Body.String() {
				t.Fail("served-bytes-not-a-root-file", "%s on %s(%s, root %s): first answer status %d %q, repeated answer status %d %q", cur, kind, prefix, rootAbs, first.Status(), truncate(first.Body.String(), 80), again.Status(), truncate(again.Body.String(), 80))
				return
			}
			if first.Status() == 200 {
				if _, ok := insideByContent[first.Body.String()]; !ok {
					t.Fail("served-bytes-not-a-root-file", "%s on %s(%s): 200 with a body that is not the content of any file under the root: %q", cur, kind, prefix, truncate(first.Body.String(), 120))
				}
			}
		}
		// with the cache: two very long spellings that agree in their first few hundred bytes; the first names a
		// file with an allowed extension, the second one without
		if cached && kind == "StaticFiles" {
			long := prefix + "/" + strings.Repeat("./", 130+r.IntN(60))
			okRec, _, p1 := Serve(router, NewReq("GET", long+"a.css"))
			badRec, _, p2 := Serve(router, NewReq("GET", long+"c.txt"))
			cur = fmt.Sprintf("GET %s/(./ x many)a.css, then GET %s/(the same)c.txt", prefix, prefix)
			t.Count("requests.long_pair_with_a_common_head", 1)
			if p1 || p2 {
				t.Fail("servehttp-panics", "%s on %s(%s): panicked", cur, kind, prefix)
				return
			}
			if okRec.Status() == 200 {
				t.Count("requests.long_pair_first_served", 1)
			}
			if badRec.Status() == 200 {
				t.Fail("extension-filter-bypassed", "%s on StaticFiles(%s, exts %q): the second request was answered 200 %q although its path does not end in an allowed extension", cur, prefix, exts, truncate(badRec.Body.String(), 80))
				return
			}
		}
	})
	e.Require("requests.hostile", 5000)
	e.Require("requests.file_served", 500)
}

func truncate(s string, n int) string {
	if len(s) > n {
		return s[:n] + "..."
	}
	return s
}
