package mon

import (
	"fmt"
	"net/http"
	"net/url"
	"strings"

	"github.com/gookit/rux"
)

func init() { Monitors["C11"] = runC11 }

func c11Opts(strict, encoded bool) []func(*rux.Router) {
	var o []func(*rux.Router)
	if strict {
		o = append(o, rux.StrictLastSlash)
	}
	if encoded {
		o = append(o, rux.UseEncodedPath)
	}
	return o
}

func namedHandler(name string) rux.HandlerFunc {
	return func(c *rux.Context) {
		rec := recOf(c)
		rec.Route = name
		rec.Params = copyParams(c.Params)
		c.WriteString(name)
	}
}

func strFromIndex(idx int64, alphabet []string, n int) string {
	var b strings.Builder
	for i := 0; i < n; i++ {
		b.WriteString(alphabet[idx%int64(len(alphabet))])
		idx /= int64(len(alphabet))
	}
	return b.String()
}

func runC11(e *Env) {
	e.Rule = "(a) totality + (b) reflexivity: ALL strings up to length 5 (quick) / 7 (thorough) over {'/',' ','.','a','b','\\t'} as registered path, group prefix (top level and nested inside another group) and request path (GET and HEAD), both StrictLastSlash settings: GET/Group/Match/ServeHTTP never panic and a static route registered as P is found by a request for the very same P; (c) equivalence on the unambiguous sub-language ws* '/'* core '/'* ws*: sampled pairs (P,Q) incl. group prefixes: route(P) is reached by Q iff N(P)==N(Q), Route.Path()==N(P), strict mode distinguishes '/a' from '/a/'; (d) path source: request targets with %41/%2F/%20 escapes parsed like a server does, routes registered under the decoded and under the escaped spelling + a dynamic route: default router matches URL.Path, UseEncodedPath matches URL.EscapedPath() (in a third of the cases only the decoded spelling is registered: the escaped request then finds no static route). Non-trivial: string with white space or repeated/trailing slashes or an escape; distinct by string (pair). Non-ASCII white space and a literal '?' (a path character once the target is parsed) are part of the alphabet; request paths that differ from the registered one only where it has its last dot; a Controller registered under a prefix yields the same route path as a Group under that prefix (both strict settings); for strings outside the documented sub-language the two entry points must still agree (Match reaches the route iff ServeHTTP does, also for the stored path itself)."
	e.Assumptions = []string{
		"strings where white space touches the stripped slashes (e.g. 'a /') are only checked for totality and reflexivity: the documented rule does not fix their normal form",
		"only ASCII white space is generated",
	}
	e.Exhaustive = true
	alpha := []string{"/", " ", ".", "a", "b", "\t"}
	maxLen := int(e.N(5, 7))
	var total int64
	var offs []int64
	pow := int64(1)
	for n := 0; n <= maxLen; n++ {
		offs = append(offs, total)
		total += pow
		pow *= int64(len(alpha))
	}
	e.Note("exhaustive_scope", fmt.Sprintf("all %d strings of length 0..%d over %q x strict/non-strict", total, maxLen, alpha))
	e.RunCases("totality-reflexivity", total, 0, func(t *T) {
		n := 0
		for n+1 < len(offs) && t.Idx >= offs[n+1] {
			n++
		}
		P := strFromIndex(t.Idx-offs[n], alpha, n)
		t.Describe(func() any { return map[string]any{"string": P} })
		if t.Idx%997 == 0 {
			t.Sample(map[string]any{"part": "totality-reflexivity", "string": P})
		}
		if strings.ContainsAny(P, " \t") || strings.Contains(P, "//") || strings.HasSuffix(P, "/") {
			t.NonTrivial(P)
		}
		for _, strict := range []bool{false, true} {
			r := rux.New(c11Opts(strict, false)...)
			var route *rux.Route
			if pv, panicked := catch(func() { route = r.GET(P, namedHandler("p")) }); panicked {
				t.Fail("registration-panics", "GET(%q, h) (strict=%v) panicked: %v", P, strict, pv)
				return
			}
			var got *rux.Route
			if pv, panicked := catch(func() { got, _, _ = r.Match("GET", P) }); panicked {
				t.Fail("match-panics", "Match(GET, %q) (strict=%v) panicked: %v", P, strict, pv)
				return
			}
			if got != route {
				t.Fail("not-reflexive", "a route registered as %q (stored as %q, strict=%v) is not found by a request for the very same string", P, route.Path(), strict)
				return
			}
			rec, pv, panicked := Serve(r, NewReq("GET", P))
			if panicked {
				t.Fail("servehttp-panics", "ServeHTTP(GET %q) (strict=%v) panicked: %v", P, strict, pv)
				return
			}
			if rec.Route != "p" {
				t.Fail("not-reflexive-servehttp", "a route registered as %q (strict=%v) is not reached by ServeHTTP for the same path (status %d)", P, strict, rec.Status())
				return
			}
			t.Count("reflexive.checked", 1)
			// as group prefix
			r2 := rux.New(c11Opts(strict, false)...)
			var inner *rux.Route
			if pv, panicked := catch(func() { r2.Group(P, func() { inner = r2.GET("/x", namedHandler("x")) }) }); panicked {
				t.Fail("group-panics", "Group(%q, ...) (strict=%v) panicked: %v", P, strict, pv)
				return
			}
			if np, ok := RefNormalize(P, false); ok && !strict {
				want, _ := RefNormalize(np+"/x", false)
				if inner.Path() != want {
					t.Fail("group-prefix-normal-form", "Group(%q){GET(\"/x\")}: route path is %q, expected %q", P, inner.Path(), want)
					return
				}
				t.Count("group_prefix.checked", 1)
			}
			// a Controller is a group that registers its routes itself: the same prefix, the same route path
			// (both strict settings: whatever the normal form of P is, the two registration APIs agree on it)
			r5 := rux.New(c11Opts(strict, false)...)
			ctl := &c11Ctrl{}
			if pv, panicked := catch(func() { r5.Controller(P, ctl) }); panicked {
				t.Fail("group-panics", "Controller(%q, ...) (strict=%v) panicked: %v", P, strict, pv)
				return
			}
			if ctl.route == nil || ctl.route.Path() != inner.Path() {
				got := "<no route>"
				if ctl.route != nil {
					got = ctl.route.Path()
				}
				t.Fail("controller-prefix-differs-from-group-prefix", "strict=%v: Group(%q){GET(\"/x\")} registers %q, Controller(%q){GET(\"/x\")} registers %q", strict, P, inner.Path(), P, got)
				return
			}
			t.Count("group_prefix.controller_agrees", 1)
			// as the prefix of a NESTED group: every level is normalised on its own
			r4 := rux.New(c11Opts(strict, false)...)
			var inner2 *rux.Route
			if pv, panicked := catch(func() {
				r4.Group("/v1", func() { r4.Group(P, func() { inner2 = r4.GET("/x", namedHandler("x")) }) })
			}); panicked {
				t.Fail("group-panics", "Group(\"/v1\"){Group(%q, ...)} (strict=%v) panicked: %v", P, strict, pv)
				return
			}
			if np, ok := RefNormalize(P, false); ok && !strict && np != "/" {
				// (a root-like inner prefix is left out: what "/v1" + "/" + "/x" should collapse to is not documented)
				want, _ := RefNormalize("/v1"+np+"/x", false)
				if inner2.Path() != want {
					t.Fail("nested-group-prefix-normal-form", "Group(\"/v1\"){Group(%q){GET(\"/x\")}}: route path is %q, expected %q", P, inner2.Path(), want)
					return
				}
				t.Count("group_prefix.nested_checked", 1)
			}
			// HEAD falls back to the GET route: through the same normalisation
			if hr, _, _ := r.Match("HEAD", P); hr != route {
				t.Fail("head-fallback-not-normalised", "a GET route registered as %q (strict=%v) is found by GET %q but not by HEAD %q", P, strict, P, P)
				return
			}
			// a request for P on a router that does not know it must simply not be found
			r3 := rux.New(c11Opts(strict, false)...)
			r3.GET("/zzz", namedHandler("z"))
			if pv, panicked := catch(func() { r3.Match("GET", P); r3.Match("POST", P) }); panicked {
				t.Fail("match-panics", "Match(%q) on an unrelated router (strict=%v) panicked: %v", P, strict, pv)
				return
			}
		}
	})

	// (c) equivalence on the unambiguous sub-language
	e.RunCases("equivalence", e.N(40000, 12000000), 0, func(t *T) {
		r := t.R
		gen := func() string {
			n := r.IntN(8)
			var b strings.Builder
			for i := 0; i < n; i++ {
				b.WriteString(pick(r, []string{"/", "/", " ", ".", "a", "b", "\t", "ab", "/", "a", "\u00a0", "\u2028", "?", "?b"}))
			}
			return b.String()
		}
		strict := chance(r, 1, 2)
		P, Q := gen(), gen()
		if chance(r, 1, 2) {
			// derive Q from P by a normalisation-preserving or a minimal breaking edit
			Q = P
			switch r.IntN(9) {
			case 8:
				// another character where the registered text has its last dot (a dot is a literal dot, not "any character")
				if chance(r, 1, 2) {
					P = strings.TrimRight(P, " \t\u00a0\u2028/") + "/" + pick(r, []string{"a.b.a", ".a.b", "a..b", "b.a.", "a.b/a.b"}) // several dots behind the first segment
					Q = P
				}
				if i := strings.LastIndex(Q, "."); i >= 0 {
					Q = Q[:i] + pick(r, []string{"a", "b", "ab"}) + Q[i+1:]
				}
			case 7:
				Q = Q + pick(r, []string{"?", "?a=b", "?/"}) // a literal '?' (sent as %3F) is a path character like any other
			case 0:
				Q = pick(r, []string{" ", "\u3000", ""}) + Q + pick(r, []string{"\t", "\u00a0", "\u0085", " \u2028"})
			case 1:
				Q = "/" + Q
			case 2:
				Q = Q + "/"
			case 3:
				Q = strings.TrimLeft(Q, "/")
			case 4:
				Q = strings.TrimRight(Q, "/")
			case 5:
				Q = Q + "//"
			case 6:
				Q = Q + "a"
			}
		}
		G := ""
		if chance(r, 1, 3) {
			G = pick(r, []string{"/g", "g", "/g/", " /g ", "//g", "/g/h", "g/h/"})
		}
		t.Describe(func() any {
			return map[string]any{"registered": P, "requested": Q, "group_prefix": G, "strict": strict}
		})
		t.AutoSample()
		np, okP := RefNormalize(P, strict)
		nq, okQ := RefNormalize(Q, strict)
		if !okP || !okQ {
			t.Count("equivalence.outside_sublanguage", 1)
			// the normal form of such strings is not documented, but whatever it is, both entry
			// points apply it: a request path reaches the route through Match exactly when it
			// reaches it through ServeHTTP (also when the request spells the stored path itself)
			router := rux.New(c11Opts(strict, false)...)
			var route *rux.Route
			if _, panicked := catch(func() { route = router.GET(P, namedHandler("p")) }); panicked || route == nil {
				return // totality is judged by part (a)
			}
			for _, q := range []string{Q, route.Path(), route.Path() + "/", " " + route.Path()} {
				got, _, _ := router.Match("GET", q)
				rec, pv, panicked := Serve(router, NewReq("GET", q))
				if panicked {
					t.Fail("servehttp-panics", "ServeHTTP(GET %q) panicked: %v", q, pv)
					return
				}
				t.Count("equivalence.entry_point_pairs", 1)
				if (got == route) != (rec.Route == "p") {
					t.Fail("entry-points-normalise-differently", "route registered as %q (stored as %q, strict=%v), request path %q: Match reaches it=%v, ServeHTTP reaches it=%v", P, route.Path(), strict, q, got == route, rec.Route == "p")
					return
				}
			}
			return
		}
		if G != "" && strict && strings.HasSuffix(strings.TrimSpace(G), "/") {
			return // a trailing slash inside a concatenated strict path: normal form not documented
		}
		router := rux.New(c11Opts(strict, false)...)
		var route *rux.Route
		wantPath := np
		reg := func() { route = router.GET(P, namedHandler("p")) }
		if G != "" {
			ng, _ := RefNormalize(G, strict)
			if strict {
				wantPath = ng + np
			} else {
				wantPath, _ = RefNormalize(ng+np, false)
			}
			nq2 := nq
			if strict {
				nq = ng + nq2
			} else {
				nq, _ = RefNormalize(ng+nq2, false)
			}
			Q = G + "/" + strings.TrimLeft(strings.TrimLeft(Q, " \t"), "/") // request under the prefix
			if q2, ok := RefNormalize(Q, strict); ok {
				nq = q2
			} else {
				return
			}
			old := reg
			reg = func() { router.Group(G, old) }
		}
		if pv, panicked := catch(reg); panicked {
			t.Fail("registration-panics", "registering %q (group %q, strict=%v) panicked: %v", P, G, strict, pv)
			return
		}
		if strings.ContainsAny(P+Q, " \t") || strings.Contains(P+Q, "//") || strings.HasSuffix(P, "/") || strings.HasSuffix(Q, "/") {
			t.NonTrivial(fmt.Sprint(P, "|", Q, "|", G, strict))
		}
		if route.Path() != wantPath {
			t.Fail("registered-normal-form", "route registered as %q (group %q, strict=%v) is stored as %q, its normal form is %q", P, G, strict, route.Path(), wantPath)
			return
		}
		reqMethod := "GET"
		if chance(r, 1, 3) {
			reqMethod = "HEAD" // served by the GET route through the HEAD fallback: same normalisation
		}
		got, _, _ := router.Match(reqMethod, Q)
		reached := got == route
		should := nq == wantPath
		t.Count("equivalence.pairs", 1)
		t.Tracef("stored as %q; request %q normal form %q: reached=%v (expected %v)", route.Path(), Q, nq, reached, should)
		if should {
			t.Count("equivalence.pairs_equal", 1)
		}
		if reached != should {
			sig := "reached-by-inequivalent-path"
			if should {
				sig = "not-reached-by-equivalent-path"
			}
			t.Fail(sig, "route %q (normal form %q, group %q, strict=%v) and request path %q (normal form %q): reached=%v, expected %v", P, wantPath, G, strict, Q, nq, reached, should)
			return
		}
		rec, pv, panicked := Serve(router, NewReq("GET", Q))
		if panicked {
			t.Fail("servehttp-panics", "ServeHTTP(GET %q) panicked: %v", Q, pv)
			return
		}
		if (rec.Route == "p") != should {
			t.Fail("servehttp-"+map[bool]string{true: "not-reached-by-equivalent-path", false: "reached-by-inequivalent-path"}[should], "ServeHTTP(GET %q): route %q (normal form %q, strict=%v) ran=%v, expected %v", Q, P, wantPath, strict, rec.Route == "p", should)
			return
		}
		// the same literal text as the prefix of a route with a variable: reached by exactly the same prefixes
		// ('?' is pattern syntax in the literal text of a route with variables, like the other regex
		// metacharacters except '.': outside the documented pattern language, not judged)
		if G == "" && !strings.Contains(wantPath+nq, "?") && wantPath != "/" && !strings.HasSuffix(wantPath, "/") && !strings.HasSuffix(nq, "/") {
			rd := rux.New(c11Opts(strict, false)...)
			var dyn *rux.Route
			if _, panicked := catch(func() { dyn = rd.GET(wantPath+"/{id}", namedHandler("dyn")) }); panicked || dyn == nil {
				return
			}
			got, ps, _ := rd.Match("GET", nq+"/7")
			t.Count("equivalence.dynamic_sibling", 1)
			if (got == dyn) != should || (should && ps["id"] != "7") {
				t.Fail("dynamic-route-prefix-not-literal", "route %q and request %q: reached=%v (params %v), expected reached=%v with id=7 (the literal part %q is compared character by character)", wantPath+"/{id}", nq+"/7", got == dyn, ps, should, wantPath)
				return
			}
			// ... and as the text behind a variable
			rd2 := rux.New(c11Opts(strict, false)...)
			var dyn2 *rux.Route
			if _, panicked := catch(func() { dyn2 = rd2.GET("/{id}"+wantPath, namedHandler("dyn2")) }); panicked || dyn2 == nil {
				return
			}
			got2, ps2, _ := rd2.Match("GET", "/7"+nq)
			if (got2 == dyn2) != should || (should && ps2["id"] != "7") {
				t.Fail("dynamic-route-suffix-not-literal", "route %q and request %q: reached=%v (params %v), expected reached=%v with id=7 (the literal part %q is compared character by character)", "/{id}"+wantPath, "/7"+nq, got2 == dyn2, ps2, should, wantPath)
			}
		}
	})

	// (d) path source
	atoms := []string{"a", "b", "%41", "%2F", "%20", ".", "x%2Fy", "%61"}
	e.RunCases("path-source", e.N(6000, 2000000), 0, func(t *T) {
		r := t.R
		n := 1 + r.IntN(3)
		target := ""
		for i := 0; i < n; i++ {
			target += "/"
			k := 1 + r.IntN(2)
			for j := 0; j < k; j++ {
				target += pick(r, atoms)
			}
		}
		if chance(r, 1, 4) {
			target = "/d" + target
		}
		strict := chance(r, 1, 4)
		t.Describe(func() any { return map[string]any{"request_target": target, "strict": strict} })
		t.AutoSample()
		u, err := url.ParseRequestURI(target)
		if err != nil {
			return
		}
		dec, esc := u.Path, u.EscapedPath()
		nd, ok1 := RefNormalize(dec, strict)
		ne, ok2 := RefNormalize(esc, strict)
		if !ok1 || !ok2 {
			return
		}
		if strings.ContainsAny(nd+ne, "{}[]") {
			return
		}
		onlyDecoded := chance(r, 1, 3) // only the decoded spelling is registered: with UseEncodedPath a request whose escaped spelling differs finds nothing
		for _, encoded := range []bool{false, true} {
			router := rux.New(c11Opts(strict, encoded)...)
			if pv, panicked := catch(func() {
				router.GET(nd, namedHandler("decoded-spelling"))
				if ne != nd && !onlyDecoded {
					router.GET(ne, namedHandler("escaped-spelling"))
				}
				router.GET("/d/{v}", namedHandler("dyn"))
				// an internal redirect to the same URL: the request is dispatched again through HandleContext
				router.GET("/redispatch-entry", func(c *rux.Context) {
					cp := *u
					c.Req.URL = &cp
					c.Router().HandleContext(c)
				})
			}); panicked {
				t.Fail("registration-panics", "registering %q / %q panicked: %v", nd, ne, pv)
				return
			}
			req := &http.Request{Method: "GET", URL: u, Header: http.Header{}, Body: http.NoBody, RequestURI: target, Proto: "HTTP/1.1", ProtoMajor: 1, ProtoMinor: 1, Host: "example.test"}
			rec, pv, panicked := Serve(router, req)
			if panicked {
				t.Fail("servehttp-panics", "ServeHTTP(GET %s) panicked: %v", target, pv)
				return
			}
			want := "decoded-spelling"
			if encoded && ne != nd {
				want = "escaped-spelling"
				if onlyDecoded {
					want = "" // no route is registered under the escaped spelling (unless it matches /d/{v})
					if strings.HasPrefix(ne, "/d/") && !strings.Contains(strings.TrimPrefix(ne, "/d/"), "/") {
						want = "dyn"
					}
				}
			}
			t.Count("pathsource.checked", 1)
			if ne != nd {
				t.Count("pathsource.spellings_differ", 1)
				t.NonTrivial(target + fmt.Sprint(strict))
			}
			if rec.Route != want {
				t.Fail("wrong-path-source", "request target %q (URL.Path %q, EscapedPath %q), UseEncodedPath=%v strict=%v: expected the route registered under the %s, observed route %q status %d", target, dec, esc, encoded, strict, want, rec.Route, rec.Status())
				return
			}
			// the same URL reached through an internal re-dispatch: same path source, same route
			if nd != "/redispatch-entry" && ne != "/redispatch-entry" {
				rrec, rpv, rpan := Serve(router, NewReq("GET", "/redispatch-entry"))
				if rpan {
					t.Fail("servehttp-panics", "re-dispatch to %s panicked: %v", target, rpv)
					return
				}
				t.Count("pathsource.redispatched", 1)
				if rrec.Route != want {
					t.Fail("wrong-path-source-on-redispatch", "request re-dispatched (HandleContext) to %q (URL.Path %q, EscapedPath %q), UseEncodedPath=%v strict=%v: expected the route registered under the %s as for a direct request, observed route %q status %d", target, dec, esc, encoded, strict, want, rrec.Route, rrec.Status())
					return
				}
			}
			// the dynamic route sees the value from the same source
			router2 := rux.New(c11Opts(strict, encoded)...)
			router2.GET("/d/{v}", namedHandler("dyn"))
			src := nd
			if encoded {
				src = ne
			}
			rec2, _, pan2 := Serve(router2, req)
			if pan2 {
				t.Fail("servehttp-panics", "ServeHTTP(GET %s) panicked", target)
				return
			}
			wantV, matches := "", false
			if strings.HasPrefix(src, "/d/") && !strings.Contains(src[3:], "/") && len(src) > 3 {
				wantV, matches = src[3:], true
			}
			if matches != (rec2.Route == "dyn") || (matches && rec2.Params["v"] != wantV) {
				t.Fail("dynamic-route-path-source", "request target %q, UseEncodedPath=%v: /d/{v} expected match=%v v=%q; observed route %q params {%s}", target, encoded, matches, wantV, rec2.Route, fmtParams(rec2.Params))
				return
			}
			if matches {
				t.Count("pathsource.dynamic_checked", 1)
			}
		}
	})
	e.Require("reflexive.checked", 5000)
	e.Require("group_prefix.checked", 1000)
	e.Require("group_prefix.nested_checked", 1000)
	e.Require("equivalence.pairs", 5000)
	e.Require("equivalence.pairs_equal", 1000)
	e.Require("pathsource.spellings_differ", 1000)
	e.Require("pathsource.dynamic_checked", 100)
}

// c11Ctrl registers GET "/x" like the group body of the prefix checks does.
type c11Ctrl struct{ route *rux.Route }

func (c *c11Ctrl) AddRoutes(g *rux.Router) { c.route = g.GET("/x", namedHandler("x")) }
