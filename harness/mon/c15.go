package mon

import (
	"fmt"
	"math/rand/v2"
	"net/http"
	"net/url"
	"sort"
	"strconv"
	"strings"

	"github.com/gookit/rux"
)

func init() { Monitors["C15"] = runC15 }

type urlClass struct {
	Re      string // "" = default
	Values  []string
	Last    bool // may only be used for the last variable (can span a slash)
	NotLast bool // accepts the empty string: never the last or the first variable
}

var urlClasses = []urlClass{
	{Re: "", Values: []string{"1", "abc", "a b", "é-ü", "100%", "%2F", "a%20b", "x?y", "x#y", "a+b", "a&b=c", "{id}", "{name}", "{n}", "$1", "..", ".", "a;b", "a:b", "日本", "~_-", "{id:\\d+}", "%41bc", "50%25off", "a=b", "[x]", "a'b\"c", "\\d+", "a\\b", "*"}},
	{Re: `\d+`, Values: []string{"1", "22", "007", "1234567890", "0", "00"}},
	{Re: `[a-z]+`, Values: []string{"a", "abc", "zz"}},
	{Re: `\d{2}`, Values: []string{"12", "07", "99"}},
	{Re: `(?:ab|cd)+`, Values: []string{"ab", "cdab", "cd"}},
	{Re: `[[:alpha:]]+`, Values: []string{"abc", "Z", "xY"}},
	{Re: `.+`, Values: []string{"a", "a/b", "x y/z?", "%2F/..", "{id}/{name}", "a//b"}, Last: true},
	// a class that accepts the empty string: "" is a value like any other (never as the last or a leading segment,
	// where the path normalisation would take the empty segment away)
	{Re: `[a-z]*`, Values: []string{"", "ab", "", "z"}, NotLast: true},
}

type namedRouteSpec struct {
	ID       string // unique id written by the handler
	Name     string
	Path     string
	Vars     []string
	Cls      []int
	API      string
	route    *rux.Route
	VarFirst bool
}

func genNamedRoute(r *rand.Rand, k int, name string) *namedRouteSpec {
	ns := &namedRouteSpec{ID: fmt.Sprintf("route%d", k), Name: name}
	ns.API = pick(r, []string{"AddNamed", "NewNamedRoute+AddRoute", "NamedRoute+AttachTo", "GET+NamedTo"})
	nv := r.IntN(4)
	path := fmt.Sprintf("/n%d", k)
	if chance(r, 1, 5) {
		// a variable-first route: its values may spell the literal first segment of a sibling route
		nv = 2 + r.IntN(2)
		path = ""
		ns.VarFirst = true
	}
	names := []string{"id", "name", "n", "uid", "x", "num", "any", "all"} // the last three are also names of built-in global variables
	r.Shuffle(len(names), func(i, j int) { names[i], names[j] = names[j], names[i] })
	for i := 0; i < nv; i++ {
		ci := r.IntN(len(urlClasses))
		if urlClasses[ci].Last && i != nv-1 {
			ci = 0
		}
		if urlClasses[ci].NotLast && (i == nv-1 || i == 0) {
			ci = 0
		}
		if chance(r, 1, 2) {
			ci = 0
		}
		if chance(r, 1, 3) && !(ns.VarFirst && i == 0) {
			path += pick(r, []string{"/lit", "/v1.0", "/a-b"})
		}
		if urlClasses[ci].Re == "" && (names[i] == "num" || names[i] == "any" || names[i] == "all") {
			// a plain {num} / {any} / {all} means the built-in global regex; only variables that
			// bring their own regex may carry such a name here
			names[i] = "v" + names[i]
		}
		v := "{" + names[i]
		if urlClasses[ci].Re != "" {
			v += ":" + urlClasses[ci].Re
		}
		v += "}"
		switch {
		case chance(r, 1, 6):
			path += "/p-" + v
		case chance(r, 1, 6):
			path += "/" + v + ".html"
		default:
			path += "/" + v
		}
		ns.Vars = append(ns.Vars, names[i])
		ns.Cls = append(ns.Cls, ci)
	}
	if ns.VarFirst {
		path += fmt.Sprintf("/vf%d", k)
	}
	ns.Path = path
	return ns
}

func (ns *namedRouteSpec) register(router *rux.Router) {
	id := ns.ID
	h := func(c *rux.Context) {
		rec := recOf(c)
		rec.Route = id
		rec.Params = copyParams(c.Params)
		// the handler then works on its parameters in place (normalises them, adds a derived one): its own map
		for k := range c.Params {
			c.Params[k] = "normalised-by-the-handler-of-an-earlier-request"
		}
		if c.Params != nil {
			c.Params["derived-by-an-earlier-request"] = "x"
		}
		c.WriteString(id)
	}
	switch ns.API {
	case "AddNamed":
		ns.route = router.AddNamed(ns.Name, ns.Path, h, "GET")
	case "NewNamedRoute+AddRoute":
		ns.route = rux.NewNamedRoute(ns.Name, ns.Path, h, "GET")
		router.AddRoute(ns.route)
	case "NamedRoute+AttachTo":
		ns.route = rux.NamedRoute(ns.Name, ns.Path, h, "GET")
		ns.route.AttachTo(router)
	default:
		ns.route = router.GET(ns.Path, h)
		ns.route.NamedTo(ns.Name, router)
	}
}

func runC15(e *Env) {
	e.Rule = "named routes without optional parts (static, 1..3 variables: default, \\d+, [a-z]+, \\d{2}, .+ as last; literal text between and around variables; also variable-first routes whose values spell the literal first segment of a sibling route; numeric values passed as int/int64/uint) registered through each naming API (AddNamed, NewNamedRoute+AddRoute, NamedRoute+AttachTo, GET+NamedTo), with re-registrations and re-namings under the same name; values drawn from hostile pools that satisfy the class (blanks, non-ASCII, %, %2F, ?, #, +, &, text that looks like another placeholder, $1, dots); extra non-variable arguments; three argument styles (M, key/value pairs, *BuildRequestURL with Params+Queries). Oracle (round trip): BuildURL -> String() -> url.ParseRequestURI -> Match and ServeHTTP must select the route most recently registered under the name with params == the supplied values, the query must contain exactly the extra arguments, GetRoute(name) must be that route. Each assignment is built 6 times (map iteration order is part of the input). Non-trivial: a value with a character that needs escaping or that looks like a placeholder, >= 2 variables, or a re-registered name; distinct by (route, assignment, style). Also: an older route of a re-registered name is renamed to a new name (the old name keeps its latest registration); regex classes containing a colon. Every URL handed out is edited by the caller afterwards (query, path, fragment, host), which must not show in the next one built. The route handlers edit their Params map in place after recording it (with a route cache the same URL is requested up to six times)."
	e.Assumptions = []string{
		"values whose leading/trailing white space or trailing '/' would land at the very end of the path are excluded: path normalisation (C11) removes them by design",
		"path variables are addressed as \"{name}\" keys, other keys are query arguments (documented calling convention)",
	}
	e.RunCases("roundtrip", e.N(8000, 2000000), 0, c15Case)
	e.Require("roundtrip.dynamic", 5000)
	e.Require("roundtrip.static", 500)
	e.Require("roundtrip.placeholder_like_value", 300)
	e.Require("roundtrip.renamed", 500)
	e.Require("roundtrip.with_query", 2000)
}

func c15Case(t *T) {
	r := t.R
	var opts []func(*rux.Router)
	cacheCap := -1
	if chance(r, 1, 2) {
		cacheCap = pick(r, []int{1, 2, 3, 1000})
		opts = append(opts, rux.CachingWithNum(uint16(cacheCap)))
	}
	router := NewRouterVia(r.IntN(3), opts...)
	nNames := 1 + r.IntN(3)
	var specs []*namedRouteSpec
	latest := map[string]*namedRouteSpec{}
	var log []string
	var failing []string
	t.Describe(func() any {
		return map[string]any{"registrations": log, "failing": failing, "route_cache_capacity": cacheCap}
	})
	k := 0
	for i := 0; i < nNames; i++ {
		name := fmt.Sprintf("name%d", i)
		regs := 1
		if chance(r, 1, 3) {
			regs = 2 + r.IntN(2)
		}
		for j := 0; j < regs; j++ {
			k++
			ns := genNamedRoute(r, k, name)
			if pv, panicked := catch(func() { ns.register(router) }); panicked {
				t.Fail("registration-panics", "registering %s %q via %s panicked: %v", ns.Name, ns.Path, ns.API, pv)
				return
			}
			specs = append(specs, ns)
			latest[name] = ns
			log = append(log, fmt.Sprintf("%s: %s = %q via %s", ns.ID, ns.Name, ns.Path, ns.API))
			if j > 0 {
				t.Count("roundtrip.renamed", 1)
			}
		}
		// sometimes an older route of this name is named again: it becomes the most recent
		if regs > 1 && chance(r, 1, 3) {
			var older []*namedRouteSpec
			for _, s := range specs {
				if s.Name == name && s != latest[name] {
					older = append(older, s)
				}
			}
			o := pick(r, older)
			o.route.NamedTo(name, router)
			latest[name] = o
			log = append(log, fmt.Sprintf("%s.NamedTo(%q) again", o.ID, name))
			t.Count("roundtrip.renamed", 1)
		}
	}
	// an older route (no longer the most recent one of its name) is given a new, different name:
	// it becomes the route of the new name, the old name keeps its most recent registration
	if chance(r, 1, 3) {
		var older []*namedRouteSpec
		for _, s := range specs {
			if s != latest[s.Name] {
				older = append(older, s)
			}
		}
		if len(older) > 0 {
			o := pick(r, older)
			newName := "moved-" + o.ID
			o.route.NamedTo(newName, router)
			log = append(log, fmt.Sprintf("%s.NamedTo(%q) (was registered as %q; %s is the most recent %q)", o.ID, newName, o.Name, latest[o.Name].ID, o.Name))
			latest[newName] = o
			t.Count("roundtrip.renamed_to_new_name", 1)
		}
	}
	t.AutoSample()

	for name, ns := range latest {
		if got := router.GetRoute(name); got != ns.route {
			gp := "<nil>"
			if got != nil {
				gp = got.Path()
			}
			failing = append(failing, name)
			t.Fail("getroute-not-most-recent", "GetRoute(%q) returns the route with path %q, the route most recently registered under that name is %s (%q, via %s)", name, gp, ns.ID, ns.Path, ns.API)
			return
		}
		for rep := 0; rep < 3; rep++ {
			// draw the assignment
			vals := map[string]string{}
			nontrivial := len(ns.Vars) >= 2
			for i, v := range ns.Vars {
				val := pick(r, urlClasses[ns.Cls[i]].Values)
				if ns.VarFirst && i == 0 && urlClasses[ns.Cls[i]].Re == "" && chance(r, 2, 3) {
					val = fmt.Sprintf("n%d", 1+r.IntN(len(specs))) // the literal first segment of another route
				}
				if urlClasses[ns.Cls[i]].Re == "" && val != "" && chance(r, 1, 5) {
					// a blank at the edge of the value (inside the path: only the ends of the whole path are trimmed)
					if chance(r, 1, 2) {
						val = " " + val
					} else {
						val += " "
					}
					t.Count("roundtrip.value_with_a_blank_at_its_edge", 1)
				}
				if i == len(ns.Vars)-1 && strings.HasSuffix(ns.Path, "}") {
					// the value ends the path: normalisation would strip trailing blanks / slashes
					for strings.HasSuffix(val, " ") || strings.HasSuffix(val, "/") || strings.HasPrefix(val, " ") && len(ns.Vars) == 0 {
						val = strings.TrimRight(val, " /") + "x"
					}
				}
				vals[v] = val
				if strings.ContainsAny(val, " %?#+&{}$;:=[]'\"\\*") || val == "." || val == ".." || !isASCII(val) {
					nontrivial = true
				}
				if strings.Contains(val, "{") {
					t.Count("roundtrip.placeholder_like_value", 1)
				}
			}
			extras := map[string]string{}
			for i, n := 0, r.IntN(3); i < n; i++ {
				extras[pick(r, []string{"q", "page", "sort by", "a&b", "ü"})] = pick(r, []string{"1", "x y", "a&b=c", "é", "", "%41", "{id}"})
			}
			if len(ns.Vars) > 0 && chance(r, 1, 4) {
				// a query argument that is NAMED like one of the route's variables (no braces: it is not the variable)
				extras[pick(r, ns.Vars)] = pick(r, []string{"99", "from-the-query", "x y", ""})
				t.Count("roundtrip.query_argument_named_like_a_variable", 1)
			}
			asAny := func(s string) any {
				// purely numeric values are handed over as numbers (the documented M is map[string]any)
				if n, err := strconv.Atoi(s); err == nil && strconv.Itoa(n) == s {
					switch r.IntN(4) {
					case 0:
						return n
					case 1:
						return int64(n)
					case 2:
						if n >= 0 {
							return uint(n)
						}
					}
				}
				return s
			}
			for styleI, style := range []string{"M", "pairs", "builder"} {
				for build := 0; build < 2; build++ {
					var u *url.URL
					pv, panicked := catch(func() {
						switch style {
						case "M":
							m := rux.M{}
							for k, v := range vals {
								m["{"+k+"}"] = asAny(v)
							}
							for k, v := range extras {
								m[k] = v
							}
							if len(m) == 0 {
								u = router.BuildURL(name)
							} else {
								u = router.BuildURL(name, m)
							}
						case "pairs":
							var args []any
							for k, v := range vals {
								args = append(args, "{"+k+"}", asAny(v))
							}
							for k, v := range extras {
								args = append(args, k, v)
							}
							if len(args) == 2 {
								// a single pair is ambiguous with the 1-argument forms: add a neutral pair
								args = append(args, "zz", "1")
								extras["zz"] = "1"
							}
							u = router.BuildRequestURL(name, args...)
						default:
							b := rux.NewBuildRequestURL()
							pm := rux.M{}
							for k, v := range vals {
								pm["{"+k+"}"] = asAny(v)
							}
							qs := url.Values{}
							for k, v := range extras {
								qs.Add(k, v)
							}
							u = router.BuildURL(name, b.Params(pm).Queries(qs))
						}
					})
					desc := fmt.Sprintf("BuildURL(%q) on %s %q, values %v, extras %v, style %s", name, ns.ID, ns.Path, vals, extras, style)
					if panicked {
						failing = append(failing, desc)
						t.Fail("buildurl-panics", "%s panicked: %v", desc, pv)
						return
					}
					if nontrivial || latest[name] != nil && len(specs) > nNames {
						t.NonTrivial(desc)
					}
					s := u.String()
					t.Tracef("%s -> %q", desc, s)
					parsed, err := url.ParseRequestURI(s)
					if err != nil {
						failing = append(failing, desc)
						t.Fail("built-url-unparseable", "%s produced %q which a server cannot parse: %v", desc, s, err)
						return
					}
					if len(ns.Vars) == 0 {
						t.Count("roundtrip.static", 1)
					} else {
						t.Count("roundtrip.dynamic", 1)
					}
					// dispatch
					route, ps, _ := router.Match("GET", parsed.Path)
					if route != nil && route != ns.route && route.Path() == ns.route.Path() && route.Name() == ns.route.Name() {
						route = ns.route // a cache hit answers with the cached copy of that very route
					}
					if route != nil && route != ns.route && ns.VarFirst {
						// a variable-first route whose value spells a sibling's literal first segment: the
						// sibling matches the same path and the documented priority (C01) prefers it. Not a
						// round-trip matter.
						t.Count("roundtrip.shadowed_by_literal_first_sibling", 1)
						continue
					}
					if route != ns.route {
						gp := "<no route>"
						if route != nil {
							gp = route.Path()
						}
						failing = append(failing, desc)
						t.Fail("roundtrip-wrong-route", "%s -> %q; requesting its path %q is dispatched to %s, not to the named route", desc, s, parsed.Path, gp)
						return
					}
					if !sameParams(copyParams(ps), vals) && !(len(vals) == 0 && len(ps) == 0) {
						failing = append(failing, desc)
						t.Fail("roundtrip-params-differ", "%s -> %q; the request carries params {%s}, the URL was built from {%s}", desc, s, fmtParams(copyParams(ps)), fmtParams(vals))
						return
					}
					req := &http.Request{Method: pick(r, []string{"GET", "GET", "HEAD"}), URL: parsed, Header: http.Header{}, Body: http.NoBody, RequestURI: s, Proto: "HTTP/1.1", ProtoMajor: 1, ProtoMinor: 1, Host: "example.test"}
					rec, pv2, pan2 := Serve(router, req)
					if pan2 {
						t.Fail("servehttp-panics", "%s -> %q: ServeHTTP panicked: %v", desc, s, pv2)
						return
					}
					if rec.Route != ns.ID || (!sameParams(rec.Params, vals) && !(len(vals) == 0 && len(rec.Params) == 0)) {
						failing = append(failing, desc)
						t.Fail("roundtrip-servehttp", "%s -> %q: ServeHTTP ran %q with params {%s}, expected %s with {%s}", desc, s, rec.Route, fmtParams(rec.Params), ns.ID, fmtParams(vals))
						return
					}
					// query: exactly the extras
					q := parsed.Query()
					if len(extras) > 0 {
						t.Count("roundtrip.with_query", 1)
					}
					var qk []string
					for k := range q {
						qk = append(qk, k)
					}
					sort.Strings(qk)
					okQ := len(q) == len(extras)
					for k, v := range extras {
						if vs, ok := q[k]; !ok || len(vs) != 1 || vs[0] != v {
							okQ = false
						}
					}
					if !okQ {
						failing = append(failing, desc)
						t.Fail("query-arguments", "%s -> %q: query parameters are %v, the extra arguments were %v", desc, s, q, extras)
						return
					}
					delete(extras, "zz")
					_ = styleI
					// the caller finishes the URL it was given (a tracking parameter, a fragment, another host): its own object
					u.RawQuery = "edited-by-the-caller-of-an-earlier-BuildURL=1"
					u.Path += "/edited-by-an-earlier-caller"
					u.Fragment = "frag"
					u.Host = "other.example"
				}
			}
		}
	}
}

func isASCII(s string) bool {
	for i := 0; i < len(s); i++ {
		if s[i] >= 0x80 {
			return false
		}
	}
	return true
}
