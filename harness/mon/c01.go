package mon

import (
	"fmt"
	"net/url"
	"strings"

	"github.com/gookit/rux"
)

// Monitors maps a property id to its monitor.
var Monitors = map[string]func(*Env){}

func init() {
	Monitors["C01"] = func(e *Env) { runRouting(e, false) }
	Monitors["C02"] = func(e *Env) { runRouting(e, true) }
}

const kf2Key = "wrong-priority:optional-only-pattern-ranked-with-the-non-literal-group" // the former known finding KF2 (repaired, D16): an ordinary violation now

// routeHandler is the main handler of a generated route: it records which
// route ran and the parameters it was given.
func routeHandler(name string, vars []string) rux.HandlerFunc {
	return func(c *rux.Context) {
		rec := recOf(c)
		if tgt := c.Req.Header.Get("X-Redispatch"); tgt != "" {
			// internal redirect: the request is dispatched again for another path
			c.Req.Header.Del("X-Redispatch")
			c.Req.URL.Path = tgt
			rec.Ev("redispatch-from(%s)", name)
			c.Router().HandleContext(c)
			return
		}
		rec.Route = name
		rec.Params = copyParams(c.Params)
		rec.Ev("params-is-nil=%v", c.Params == nil)
		if rec.Extra == nil {
			rec.Extra = map[string]any{}
		}
		rec.Extra["params_map_itself"] = c.Params // kept beyond the request (as a logger or a background job would)
		rec.ParamVia = map[string]string{}
		for _, v := range vars {
			rec.ParamVia[v] = c.Param(v)
		}
		rec.ParamVia["__undefined__"] = c.Param("__undefined__")
		// the handler hands a copy of its context to background work: the copy knows the same values
		cp := c.Copy()
		for _, v := range vars {
			rec.ParamVia["copy:"+v] = cp.Param(v)
		}
		if c.Req.Header.Get("X-Edit-Params") != "" && c.Params != nil {
			// the handler works on ITS parameters in place (normalising an id, adding a derived value)
			rec.Extra["params_map_itself"] = nil
			for k := range c.Params {
				c.Params[k] = "edited-by-an-earlier-request"
			}
			c.Params["added-by-an-earlier-request"] = "x"
		}
		c.WriteString(name)
	}
}

// BuildRouter registers the table on a fresh router.
func BuildRouter(tb *Table, opts ...func(*rux.Router)) *rux.Router {
	r := NewRouterVia(tb.Via, opts...)
	for _, rt := range tb.Routes {
		vs, _ := rt.Pat.Vars()
		names := make([]string, len(vs))
		for i, v := range vs {
			names[i] = v.Name
		}
		rt.Register(r, routeHandler(rt.Name, names))
	}
	return r
}

func routeIndex(tb *Table, name string) int {
	for i, rt := range tb.Routes {
		if rt.Name == name {
			return i
		}
	}
	return -1
}

// runRouting is the engine behind C01 (route selection) and C02 (parameters).
// Both monitors generate the same kind of tables and probes; params selects
// which oracle reports.
func runRouting(e *Env, params bool) {
	if !params {
		e.Rule = "route tables (1..12 routes; up to 40 in the thorough tier) drawn from a pattern AST (literal/var/prefix+var+suffix segments, 15 regex classes incl. built-in and user-defined global vars and inline regexes on global-named variables, nested optional tails, bare literal tails, '.' in literals; random method subsets; overlapping patterns derived from earlier ones), cache off/on; probes = instantiations, one-step mutations and class near-misses of every pattern + random paths, x 9 methods, lower-case and unknown method tokens, via Match and ServeHTTP. Oracle: backtracking matcher over the AST + documented priority (static, literal-first-segment group, rest; earliest wins). A probe is non-trivial when >= 2 routes qualify or it is a near-miss/mutation of a registered pattern; distinct by (table, method, path). Also varied: a quarter of the routes are registered inside one or two nested Group calls whose prefixes are their leading segments, literal or variable (inner prefix with or without its slash); options applied through New, WithOptions or half and half; a fifth of the routers use UseEncodedPath (the ServeHTTP side of the model works on URL.EscapedPath()) and a fifth StrictLastSlash; a third of the ServeHTTP probes carry a query string; probe mutations append 1..3 slashes and non-ASCII white space. A third of the routers are looked at through the read-only views (String, Routes, NamedRoutes, IterateRoutes, GetRoute + Route getters) before and between the probes."
	} else {
		e.Rule = "same tables/probes as C01; every selected dynamic route's params are checked against ALL decompositions the AST matcher finds (key set == variable names, round trip reproduces the normalised path, each present value satisfies its class, unique decomposition => equal), static => no params, handler view == Match view, cache hit == miss. Non-trivial when the pattern has >= 2 vars, an optional part, a literal prefix/suffix in the variable's segment, or the observation is a cache hit; distinct by (pattern, method, path, hit). Also: re-dispatch probes (the handler of a dynamic route calls HandleContext for the path of another route; the second handler must see the parameters of its own match only). A third of the dynamic ServeHTTP probes are followed by a request whose handler edits its own Params map in place and by a caller editing the map Match returned; the next Match and the next request for the same path must again carry exactly the captured substrings."
	}
	e.Assumptions = []string{
		"patterns stay inside the documented grammar (<= 1 variable per segment, literals without regex metacharacters other than '.')",
		"the reference matcher and the 11 class regexes are the trusted statement of the documented semantics",
		"handlers treat Params as read-only (C02: a handler may edit its own map in place; that must stay with its request)",
	}
	nTables := e.N(4000, 400000)
	e.RunCases("tables", nTables, 0, func(t *T) { routingCase(t, params) })
	if !params {
		e.Require("probes.multi_qualifier", 50)
		e.Require("probes.dispatched", 1000)
		e.Require("probes.no_route", 1000)
	} else {
		e.Require("params.dynamic_checked", 1000)
		e.Require("params.cache_hit_checked", 50)
		e.Require("params.optional_absent", 20)
		e.Require("params.redispatch_to_varless_route", 100)
	}
}

func routingCase(t *T, params bool) {
	r := t.R
	n := 1 + r.IntN(12)
	if t.E.Thorough() && chance(r, 1, 10) {
		n = 13 + r.IntN(28) // larger tables in the thorough tier
	}
	tb := GenTable(r, n, 45)
	capacity := -1 // cache off
	if chance(r, 1, 2) {
		capacity = pick(r, []int{1, 2, 3, 1000})
	}
	encoded := chance(r, 1, 5) // UseEncodedPath: ServeHTTP routes on URL.EscapedPath()
	strict := chance(r, 1, 5)  // StrictLastSlash: a trailing slash is part of the path
	var probeLog []string
	t.Describe(func() any {
		return map[string]any{"routes": tb.Describe(), "cache_capacity": capacity, "UseEncodedPath": encoded, "StrictLastSlash": strict, "failing_probes": probeLog}
	})
	var opts []func(*rux.Router)
	if capacity >= 0 {
		opts = append(opts, rux.CachingWithNum(uint16(capacity)))
	}
	if encoded {
		opts = append(opts, rux.UseEncodedPath)
	}
	if strict {
		opts = append(opts, rux.StrictLastSlash)
	}
	router := BuildRouter(tb, opts...)
	t.AutoSample()
	// the read-only views of the routing table (a dump for the log, an admin page): looking at the
	// table must not change what it selects; also called again half-way through the probes
	inspect := func() {
		_ = router.String()
		_ = router.Routes()
		_ = router.NamedRoutes()
		router.IterateRoutes(func(*rux.Route) {})
		_ = router.Handlers()
		_ = router.Err()
		for _, rt := range tb.Routes {
			if g := router.GetRoute(rt.Name); g != nil {
				_, _, _, _ = g.Path(), g.Methods(), g.Handlers(), g.String()
			}
		}
		t.Count("table.inspected_through_read_only_views", 1)
	}
	inspectEvery := 0
	if chance(r, 1, 3) {
		inspect()
		inspectEvery = 1 + r.IntN(4)
	}

	// parameter maps that handlers kept beyond their request: they belong to that request for good
	var retained []retainedParams
	if params {
		defer func() {
			for _, rp := range retained {
				t.Count("params.retained_maps_rechecked", 1)
				if now := fmtParams(copyParams(rp.m)); now != rp.snap {
					probeLog = append(probeLog, "retained params of "+rp.req)
					t.Fail("retained-params-changed-by-later-requests", "the Params map handed to the handler of %s was {%s}; after later requests on the same router the same map reads {%s}", rp.req, rp.snap, now)
					return
				}
			}
		}()
	}
	paths := tb.ProbePaths(r, 2, 5)
	tableKey := fmt.Sprint(tb.Describe())
	if params && !encoded && !strict {
		defer redispatchProbes(t, tb, router, paths, &probeLog)
	}

	for pi, probe := range paths {
		path := probe.Path
		npath, ok := RefNormalize(path, strict)
		if !ok {
			continue
		}
		if inspectEvery > 0 && pi%inspectEvery == 0 {
			inspect()
		}
		mutated := probe.Kind == "mut" || probe.Kind == "near"
		for mi, method := range append(append([]string{}, AllMethods...), "get", "Post", "FOO", "GETX") {
			um := strings.ToUpper(method)
			want, nq := tb.Resolve(um, npath, false)
			viaHead := false
			if want < 0 && um == "HEAD" {
				// the one fallback that cannot be switched off; modelled as in C06
				want, nq = tb.Resolve("GET", npath, false)
				viaHead = want >= 0
			}
			reps := 1
			if capacity >= 0 && want >= 0 && !tb.Routes[want].Pat.IsStatic() {
				reps = 3 // second and third lookup are cache hits when the cache is on
			}
			var firstPs map[string]string
			for rep := 0; rep < reps; rep++ {
				route, ps, alm := router.Match(method, path)
				got := -1
				if route != nil {
					got = routeIndex(tb, route.Name())
					if got < 0 {
						t.Fail("unknown-route", "Match(%q,%q) returned a route that was never registered: %q", method, path, route.Name())
						continue
					}
				}
				if rep == 0 {
					t.Tracef("Match(%q,%q): normalised %q, %d routes qualify, model selects %s, router returned %s params {%s}", method, path, npath, nq, rname(tb, want), rname(tb, got), fmtParams(copyParams(ps)))
				}
				if !params {
					t.Count("probes.total", 1)
					if nq >= 2 {
						t.Count("probes.multi_qualifier", 1)
					}
					if want >= 0 {
						t.Count("probes.dispatched", 1)
					} else {
						t.Count("probes.no_route", 1)
					}
					if viaHead {
						t.Count("probes.head_to_get", 1)
					}
					if nq >= 2 || mutated {
						t.NonTrivial(tableKey + "|" + um + "|" + npath)
					}
					if len(alm) != 0 {
						probeLog = append(probeLog, fmt.Sprintf("%s %q", method, path))
						t.Fail("allowed-without-option", "Match(%q,%q) reports allowed methods %v although HandleMethodNotAllowed is off", method, path, alm)
					}
					if got != want {
						probeLog = append(probeLog, fmt.Sprintf("%s %q want %s got %s", method, path, rname(tb, want), rname(tb, got)))
						kfWant, _ := tb.Resolve(um, npath, true)
						if kfWant < 0 && um == "HEAD" {
							kfWant, _ = tb.Resolve("GET", npath, true)
						}
						switch {
						case got >= 0 && want >= 0 && got == kfWant:
							t.Fail(kf2Key, "Match(%q,%q): %d routes qualify, documented priority selects %s but %s was dispatched (optional-only pattern ranked with the non-literal group)", method, path, nq, rdesc(tb, want), rdesc(tb, got))
						case got < 0:
							t.Fail("no-route-although-one-qualifies", "Match(%q,%q) reports no route, but %s qualifies (normalised path %q)", method, path, rdesc(tb, want), npath)
						case want < 0:
							t.Fail("dispatched-to-non-qualifying-route", "Match(%q,%q) dispatched to %s which does not qualify (no registered route matches %q for %s)", method, path, rdesc(tb, got), npath, um)
						default:
							t.Fail("wrong-priority", "Match(%q,%q): %d routes qualify, documented priority selects %s but %s was dispatched", method, path, nq, rdesc(tb, want), rdesc(tb, got))
						}
					}
				} else if got >= 0 {
					// whichever route was selected (C01 judges the selection): its params must decompose the path
					checkParams(t, tb, got, method, path, npath, copyParams(ps), rep > 0 && capacity >= 1, "Match", &probeLog)
					if rep == 0 {
						firstPs = copyParams(ps)
					} else if !sameParams(firstPs, copyParams(ps)) {
						probeLog = append(probeLog, fmt.Sprintf("%s %q", method, path))
						t.Fail("cache-hit-params-differ", "Match(%q,%q) repeat %d returned params {%s}, the first lookup returned {%s}", method, path, rep, fmtParams(copyParams(ps)), fmtParams(firstPs))
					}
				}
			}

			// the same probe through ServeHTTP (upper-case spellings only: the
			// dispatcher does not fold the case of the request method)
			if method != um || (mi > 2 && !chance(r, 1, 3)) {
				continue
			}
			snpath := npath
			if encoded {
				// the dispatcher works on the escaped spelling of the URL path: so does the model
				t.Count("probes.encoded_path", 1)
				var ok bool
				if snpath, ok = RefNormalize((&url.URL{Path: path}).EscapedPath(), strict); !ok {
					continue
				}
				want, _ = tb.Resolve(um, snpath, false)
				if want < 0 && um == "HEAD" {
					want, _ = tb.Resolve("GET", snpath, false)
				}
			}
			sreq := NewReq(method, path)
			if chance(r, 1, 3) {
				sreq.URL.RawQuery = pick(r, []string{"ref=mail", "v=2&path=/a/b", "x=%2F..%2F", "q"}) // the query string takes no part in routing
				t.Count("probes.with_query_string", 1)
			}
			rec, pv, panicked := Serve(router, sreq)
			if panicked {
				probeLog = append(probeLog, fmt.Sprintf("ServeHTTP %s %q", method, path))
				t.Fail("servehttp-panic", "ServeHTTP(%s %q) panicked: %v", method, path, pv)
				continue
			}
			got := -1
			if rec.Route != "" {
				got = routeIndex(tb, rec.Route)
			}
			if !params {
				t.Count("probes.via_servehttp", 1)
				if got != want {
					kfWant, _ := tb.Resolve(um, snpath, true)
					if kfWant < 0 && um == "HEAD" {
						kfWant, _ = tb.Resolve("GET", snpath, true)
					}
					probeLog = append(probeLog, fmt.Sprintf("ServeHTTP %s %q want %s got %s", method, path, rname(tb, want), rname(tb, got)))
					if got >= 0 && want >= 0 && got == kfWant {
						t.Fail(kf2Key, "ServeHTTP(%s %q): documented priority selects %s but %s ran", method, path, rdesc(tb, want), rdesc(tb, got))
					} else {
						t.Fail("servehttp-wrong-route", "ServeHTTP(%s %q): expected %s to run, observed %s (status %d)", method, path, rdesc(tb, want), rdesc(tb, got), rec.Status())
					}
				} else if want < 0 && rec.Status() != 404 {
					probeLog = append(probeLog, fmt.Sprintf("ServeHTTP %s %q", method, path))
					t.Fail("servehttp-no-route-status", "ServeHTTP(%s %q): no route qualifies, expected the default 404, got status %d", method, path, rec.Status())
				}
			} else if got >= 0 {
				if m, _ := rec.Extra["params_map_itself"].(rux.Params); m != nil && len(retained) < 400 {
					retained = append(retained, retainedParams{m, fmtParams(rec.Params), method + " " + path})
				}
				checkParams(t, tb, got, method, path, snpath, rec.Params, false, "ServeHTTP handler", &probeLog)
				if !tb.Routes[got].Pat.IsStatic() && chance(r, 1, 3) {
					// a request whose handler edits its own Params map in place (and one whose caller edits
					// the map Match returned): the parameters of later requests are those of their own match
					ereq := NewReq(method, path)
					ereq.Header.Set("X-Edit-Params", "1")
					_, _, _ = Serve(router, ereq)
					if _, mps, _ := router.Match(method, path); mps != nil {
						for k := range mps {
							mps[k] = "edited-by-an-earlier-caller"
						}
						mps["added-by-an-earlier-caller"] = "x"
					}
					t.Count("params.after_inplace_edit_by_earlier_request", 1)
					if route2, ps2, _ := router.Match(method, path); route2 != nil {
						if g2 := routeIndex(tb, route2.Name()); g2 >= 0 {
							checkParams(t, tb, g2, method, path, npath, copyParams(ps2), capacity >= 1, "Match after an earlier request edited its own Params in place", &probeLog)
						}
					}
					if rec2, _, pan2 := Serve(router, NewReq(method, path)); !pan2 && rec2.Route != "" {
						if g2 := routeIndex(tb, rec2.Route); g2 >= 0 {
							checkParams(t, tb, g2, method, path, snpath, rec2.Params, capacity >= 1, "ServeHTTP handler after an earlier request edited its own Params in place", &probeLog)
						}
					}
				}
				// c.Param(name) view
				vs, _ := tb.Routes[got].Pat.Vars()
				for _, v := range vs {
					if cv := rec.ParamVia["copy:"+v.Name]; cv != rec.Params[v.Name] {
						t.Fail("param-lost-in-context-copy", "ServeHTTP(%s %q): c.Copy().Param(%q)=%q but c.Params has %q", method, path, v.Name, cv, rec.Params[v.Name])
						return
					}
					if rec.ParamVia[v.Name] != rec.Params[v.Name] {
						t.Fail("param-accessor-differs", "ServeHTTP(%s %q): c.Param(%q)=%q but c.Params has %q", method, path, v.Name, rec.ParamVia[v.Name], rec.Params[v.Name])
					}
				}
				if rec.ParamVia["__undefined__"] != "" {
					t.Fail("param-accessor-undefined", "ServeHTTP(%s %q): c.Param of an undefined name returned %q", method, path, rec.ParamVia["__undefined__"])
				}
			}
		}
	}
}

// redispatchProbes (C02): a request served by a dynamic route is dispatched again
// (Router.HandleContext) for a path that belongs to another route; what the second
// route's handler sees must be the parameters of ITS match, nothing of the first.
func redispatchProbes(t *T, tb *Table, router *rux.Router, paths []Probe, probeLog *[]string) {
	r := t.R
	type hit struct {
		path, npath string
		route       int
	}
	var dyn, all []hit
	for _, pb := range paths {
		np, ok := RefNormalize(pb.Path, false)
		if !ok {
			continue
		}
		w, _ := tb.Resolve("GET", np, false)
		if w < 0 {
			continue
		}
		h := hit{pb.Path, np, w}
		all = append(all, h)
		if vs, _ := tb.Routes[w].Pat.Vars(); len(vs) > 0 {
			dyn = append(dyn, h)
		}
	}
	if len(dyn) == 0 || len(all) < 2 {
		return
	}
	for k := 0; k < 4; k++ {
		from, to := pick(r, dyn), pick(r, all)
		if from.route == to.route && from.npath == to.npath {
			continue
		}
		req := NewReq("GET", from.path)
		req.Header.Set("X-Redispatch", to.path)
		rec, pv, panicked := Serve(router, req)
		if panicked {
			t.Fail("redispatch-panic", "GET %q re-dispatched to %q panicked: %v", from.path, to.path, pv)
			return
		}
		t.Count("params.redispatch_checked", 1)
		t.Tracef("GET %q (route %s) re-dispatched through HandleContext to %q: handler of %s ran with params {%s}", from.path, rname(tb, from.route), to.path, rec.Route, fmtParams(rec.Params))
		got := routeIndex(tb, rec.Route)
		if got != to.route {
			// which route runs is C01's business; params are only judged for the expected one
			continue
		}
		if vs, _ := tb.Routes[got].Pat.Vars(); len(vs) == 0 {
			t.Count("params.redispatch_to_varless_route", 1)
			if len(rec.Params) != 0 {
				*probeLog = append(*probeLog, fmt.Sprintf("GET %q re-dispatched to %q", from.path, to.path))
				t.Fail("params-leak-across-redispatch", "GET %q (served by %s) re-dispatched to %q: %s declares no variable but its handler saw params {%s}", from.path, rdesc(tb, from.route), to.path, rdesc(tb, got), fmtParams(rec.Params))
			}
			continue
		}
		checkParams(t, tb, got, "GET", to.path, to.npath, rec.Params, false, "handler after re-dispatch from "+from.path, probeLog)
	}
}

type retainedParams struct {
	m    rux.Params
	snap string
	req  string
}

func rname(tb *Table, i int) string {
	if i < 0 {
		return "<none>"
	}
	return tb.Routes[i].Name
}

func rdesc(tb *Table, i int) string {
	if i < 0 {
		return "<no route>"
	}
	rt := tb.Routes[i]
	return fmt.Sprintf("%s[%s %s]", rt.Name, strings.Join(rt.Methods, ","), rt.Pat.String())
}

// checkParams is the C02 oracle for one observation.
func checkParams(t *T, tb *Table, idx int, method, path, npath string, ps map[string]string, isHit bool, via string, probeLog *[]string) {
	rt := tb.Routes[idx]
	pat := rt.Pat
	fail := func(sig, format string, args ...any) {
		*probeLog = append(*probeLog, fmt.Sprintf("%s %s %q -> %s {%s}", via, method, path, rt.Name, fmtParams(ps)))
		t.Fail(sig, "%s %s %q -> %s: %s", via, method, path, rdesc(tb, idx), fmt.Sprintf(format, args...))
	}
	if pat.IsStatic() {
		t.Count("params.static_checked", 1)
		if len(ps) != 0 {
			fail("static-route-with-params", "a static route exposes parameters {%s}", fmtParams(ps))
		}
		return
	}
	vs, depth := pat.Vars()
	t.Count("params.dynamic_checked", 1)
	if isHit {
		t.Count("params.cache_hit_checked", 1)
	}
	if len(vs) >= 2 || len(pat.Opts) > 0 || hasAffix(pat) || isHit {
		t.NonTrivial(fmt.Sprintf("%s|%s|%s|%v", pat.String(), method, npath, isHit))
	}
	// key set
	if len(ps) != len(vs) {
		fail("param-key-set", "parameters {%s} do not have exactly the pattern's variable names %v", fmtParams(ps), varNames(vs))
		return
	}
	for _, v := range vs {
		if _, ok := ps[v.Name]; !ok {
			fail("param-key-set", "parameters {%s} lack variable %q", fmtParams(ps), v.Name)
			return
		}
	}
	ds, ok := pat.RefMatch(npath, 64)
	if !ok {
		// the selected route's pattern does not match the path at all: whatever values are reported,
		// substituting them back cannot reproduce the path (C01 reports the selection itself)
		fail("params-do-not-reproduce-path", "reported {%s}, but the pattern has no decomposition of %q at all", fmtParams(ps), npath)
		return
	}
	if len(ds) >= 64 {
		t.Count("params.too_many_decompositions_skipped", 1)
		return
	}
	found := false
	for _, d := range ds {
		if sameParams(d.Params, ps) {
			found = true
			if d.Depth < len(pat.Opts) {
				t.Count("params.optional_absent", 1)
			}
			break
		}
	}
	if len(ds) == 1 {
		t.Count("params.unique_decomposition", 1)
	} else {
		t.Count("params.ambiguous_decomposition", 1)
	}
	if !found {
		// explain which clause fails
		var exp []string
		for _, d := range ds {
			exp = append(exp, "{"+fmtParams(d.Params)+"}")
		}
		sig := "params-not-a-decomposition"
		if len(ds) == 1 {
			sig = "params-differ-from-unique-decomposition"
		}
		// class check for a sharper message
		for i, v := range vs {
			val := ps[v.Name]
			if val != "" || depth[i] == 0 {
				if !v.Class.re.MatchString(val) && !(depth[i] > 0 && val == "") {
					fail("param-violates-class", "value %q of {%s} does not satisfy its regex %s; path decomposes as %s", val, v.Name, v.Class.Full, strings.Join(exp, " or "))
					return
				}
			}
		}
		fail(sig, "reported {%s}; substituting them into the pattern does not reproduce %q. Decomposition(s) of the path: %s", fmtParams(ps), npath, strings.Join(exp, " or "))
	}
}

func hasAffix(p *Pattern) bool {
	for _, s := range p.Segs {
		if s.Var != nil && (s.Pre != "" || s.Suf != "") {
			return true
		}
	}
	for _, o := range p.Opts {
		for _, s := range o.Segs {
			if s.Var != nil && (s.Pre != "" || s.Suf != "") {
				return true
			}
		}
	}
	return false
}

func varNames(vs []*Var) []string {
	out := make([]string, len(vs))
	for i, v := range vs {
		out[i] = v.Name
	}
	return out
}
