// Package mon holds the runtime monitors for gookit/rux.
package mon

import (
	_ "github.com/anishathalye/porcupine"
	_ "github.com/gookit/rux"
)
