package mon

import (
	"fmt"
	"sort"
	"strings"

	"github.com/gookit/rux"
)

func init() { Monitors["C07"] = runC07 }

// traceMW is a middleware that records enter/leave and the params it sees.
func traceMW(id string) rux.HandlerFunc {
	return func(c *rux.Context) {
		rec := recOf(c)
		rec.Ev("enter(%s){%s}", id, fmtParams(copyParams(c.Params)))
		c.Next()
		rec.Ev("leave(%s)", id)
	}
}

// buildTwin builds the router of a C07 case; capacity < 0 = caching disabled.
func buildTwin(tb *Table, cfg RouterCfg, capacity int, nGlobal int, routeMW []int, shared ...func(*rux.Router)) *rux.Router {
	cfg.CacheCap = capacity
	opts := cfg.Options()
	if shared != nil {
		opts = shared // option values the application built once and hands to several routers
	}
	r := NewRouterVia(tb.Via, opts...)
	for i := 0; i < nGlobal; i++ {
		r.Use(traceMW(fmt.Sprintf("g%d", i)))
	}
	for i, rt := range tb.Routes {
		vs, _ := rt.Pat.Vars()
		route := rt.Register(r, routeHandler(rt.Name, varNames(vs)))
		for j := 0; j < routeMW[i]; j++ {
			route.Use(traceMW(fmt.Sprintf("%s.m%d", rt.Name, j)))
		}
	}
	if cfg.CustomNF {
		r.NotFound(customNotFound)
	}
	if cfg.CustomNA {
		r.NotAllowed(customNotAllowed)
	}
	return r
}

func runC07(e *Env) {
	e.Rule = "twin routers built from the same generated table/options/middleware, one without caching and one with capacity in {0,1,2,3,5,1000} (CachingWithNum or EnableCaching+MaxNumCaches); request histories (20..200 requests) drawn with repetition from a pool of 2..5 paths, each under 1..3 methods (so that one path is hit by GET, HEAD and wrong-method requests), incl. HEAD->GET, wrong-method (405 probing) and 404 requests; after every request Match (route, params, allowed set) and ServeHTTP (handler trace with params seen by each handler, status, headers, body) of the twins are compared. A reference LRU predicts hits and evictions; histories are extended until it predicts >= 5 hits (and >= 3 evictions when the capacity is below the pool size). Non-trivial: a history with predicted hits; distinct by (table, options, capacity, history). A third of the cached routers are built from option values that a decoy router (same paths, other handlers) was built from before and that served the request pool first; nil-ness of Params is part of the observation. The Params maps handed to the handlers of the cached twin are kept and read again after the history (they must not have changed). Part many-keys: a cache of the largest capacity (65535) takes 400 000 (thorough: 2 000 000) distinct paths of three dynamic routes (decimal, hexadecimal and suffixed segment shapes, GET and POST), so that every new path meets 65535 resident ones; the last 60 000 are then asked for again (served from the cache). Every answer is compared with the uncached twin (route name, parameters), a sixteenth of them also through ServeHTTP - whatever the cache is keyed by has to tell all of them apart."
	e.Assumptions = []string{
		"handlers treat Params as read-only; registration is finished before the first request",
		"the uncached twin is the specification; both twins are built by the same code path with one option different",
	}
	e.RunCases("twins", e.N(3000, 200000), 0, c07Case)
	// many distinct keys in one big cache (whatever the cache is keyed by must tell all of them apart)
	e.RunCases("many-keys", e.N(1, 4), 2, c07ManyKeys)
	e.Require("many_keys.second_pass_compared", 50000)
	e.Require("many_keys.second_pass_cache_full", 1)
	e.Require("model.hits_predicted", 1000)
	e.Require("model.evictions_predicted", 300)
	e.Require("steps.head_fallback", 50)
	e.Require("steps.not_allowed", 50)
	e.Require("observed.cache_nonempty_histories", 100)
}

func c07Case(t *T) {
	r := t.R
	tb := GenTable(r, 1+r.IntN(8), 35)
	cfg := genCfg(r)
	cfg.CacheCap = -1
	cfg.Encoded = chance(r, 1, 3) // values containing '%' are escaped again on the way in
	if cfg.FallbackMeth != nil && chance(r, 1, 2) {
		tb.Routes = append(tb.Routes, &RouteSpec{Name: "fallback", Pat: &Pattern{Segs: []Seg{{Pre: "*"}}}, Methods: cfg.FallbackMeth})
	}
	capacity := pick(r, []int{0, 1, 2, 3, 5, 1000})
	nGlobal := r.IntN(3)
	routeMW := make([]int, len(tb.Routes))
	for i := range routeMW {
		routeMW[i] = r.IntN(3)
	}
	var hist []string
	sharedOpts := chance(r, 1, 3)
	t.Describe(func() any {
		return map[string]any{"routes": tb.Describe(), "options": cfg.Describe(), "capacity": capacity,
			"global_middleware": nGlobal, "route_middleware": routeMW, "history": hist,
			"cached_router_built_from_option_values_used_for_another_router_before": sharedOpts}
	})
	plain := buildTwin(tb, cfg, -1, nGlobal, routeMW)
	// a third of the cached routers are built from option values that another router (same
	// paths, other handlers) was built from before; that router serves the request pool first
	var decoy *rux.Router
	var cached *rux.Router
	if sharedOpts {
		cfgC := cfg
		cfgC.CacheCap = capacity
		opts := cfgC.Options()
		tbDecoy := &Table{Via: tb.Via}
		for _, rt := range tb.Routes {
			cp := *rt
			cp.Name = "decoy-" + rt.Name
			tbDecoy.Routes = append(tbDecoy.Routes, &cp)
		}
		decoy = buildTwin(tbDecoy, cfg, capacity, nGlobal, routeMW, opts...)
		cached = buildTwin(tb, cfg, capacity, nGlobal, routeMW, opts...)
		t.Count("routers.built_from_shared_option_values", 1)
	} else {
		cached = buildTwin(tb, cfg, capacity, nGlobal, routeMW)
	}
	t.AutoSample()

	// pool of requests: prefer paths that resolve to dynamic routes
	type rq struct{ m, p string }
	var pool []rq
	probes := tb.ProbePaths(r, 2, 2)
	r.Shuffle(len(probes), func(i, j int) { probes[i], probes[j] = probes[j], probes[i] })
	wantPaths := 2 + r.IntN(4)
	npaths := 0
	for _, pb := range probes {
		if npaths >= wantPaths || len(pool) >= 9 {
			break
		}
		np, ok := RefNormalize(pb.Path, cfg.Strict)
		if !ok {
			continue
		}
		npaths++
		// the same path under several methods: one the matching route allows, HEAD
		// (fallback to GET), and methods that end in the 405 probe / 404
		ms := []string{pick(r, []string{"GET", "GET", "HEAD", "POST", "PUT", "DELETE", "OPTIONS"})}
		for _, rt := range tb.Routes {
			if rt.Pat.Matches(np) {
				ms[0] = pick(r, rt.Methods)
				break
			}
		}
		if chance(r, 1, 2) {
			ms = append(ms, "HEAD")
		}
		if chance(r, 1, 2) {
			ms = append(ms, pick(r, []string{"POST", "DELETE", "OPTIONS", "PATCH", "TRACE", "GET"}))
		}
		for _, m := range ms {
			pool = append(pool, rq{m, pb.Path})
		}
	}
	if len(pool) == 0 {
		pool = append(pool, rq{"GET", "/"})
	}

	if decoy != nil {
		for _, q := range pool {
			_, _, _ = Serve(decoy, NewReq(q.m, q.p))
		}
	}
	// parameter maps the handlers of the cached twin kept beyond their request (a logger, a background
	// job): they belong to that request for good, whatever the cache does later
	var kept []retainedParams
	defer func() {
		for _, rp := range kept {
			t.Count("observed.retained_params_rechecked", 1)
			if now := fmtParams(copyParams(rp.m)); now != rp.snap {
				t.Fail("retained-params-changed-by-later-requests", "cached twin (cap %d): the Params map handed to the handler of %s was {%s}; after later requests the same map reads {%s}", capacity, rp.req, rp.snap, now)
				return
			}
		}
	}()
	model := newLRU(capacity)
	hits, evictions := 0, 0
	maxLen := 200
	minLen := 20 + r.IntN(60)
	for step := 0; step < maxLen; step++ {
		if step >= minLen && hits >= 5 && (capacity >= len(pool) || capacity == 0 || evictions >= 3) {
			break
		}
		q := pick(r, pool)
		hist = append(hist, q.m+" "+q.p)

		// model-side prediction (direct or HEAD->GET resolution to a dynamic route)
		if np, ok := RefNormalize(q.p, cfg.Strict); ok && capacity > 0 {
			km := q.m
			w, _ := tb.Resolve(q.m, np, false)
			if w < 0 && q.m == "HEAD" {
				w, _ = tb.Resolve("GET", np, false)
				km = "GET"
				if w >= 0 {
					t.Count("steps.head_fallback", 1)
				}
			}
			if w >= 0 && !tb.Routes[w].Pat.IsStatic() {
				if _, hit := model.Get(km + np); hit {
					hits++
					t.Count("model.hits_predicted", 1)
				} else {
					if len(model.keys) >= capacity {
						evictions++
						t.Count("model.evictions_predicted", 1)
					}
					model.Set(km+np, nil)
				}
			}
		}

		// --- Match on both twins ---
		r1, p1, a1 := plain.Match(q.m, q.p)
		r2, p2, a2 := cached.Match(q.m, q.p)
		n1, n2 := "", ""
		if r1 != nil {
			n1 = r1.Name()
		}
		if r2 != nil {
			n2 = r2.Name()
		}
		s1, s2 := append([]string{}, a1...), append([]string{}, a2...)
		sort.Strings(s1)
		sort.Strings(s2)
		if len(s1) > 0 {
			t.Count("steps.not_allowed", 1)
		}
		t.Tracef("step %d %s %q: uncached -> route %q {%s} allowed %v; cached(cap %d) -> route %q {%s} allowed %v", step, q.m, q.p, n1, fmtParams(copyParams(p1)), s1, capacity, n2, fmtParams(copyParams(p2)), s2)
		if (r1 == nil) != (r2 == nil) || n1 != n2 {
			t.Fail("match-route-differs", "step %d %s %q: without cache -> route %q, with cache(cap %d) -> route %q", step, q.m, q.p, n1, capacity, n2)
			return
		}
		if (p1 == nil) != (p2 == nil) {
			t.Fail("match-params-nilness-differs", "step %d %s %q (route %q): without cache Params is nil=%v, with cache(cap %d) nil=%v", step, q.m, q.p, n1, p1 == nil, capacity, p2 == nil)
			return
		}
		if !sameParams(copyParams(p1), copyParams(p2)) {
			t.Fail("match-params-differ", "step %d %s %q (route %q): without cache params {%s}, with cache(cap %d) {%s}", step, q.m, q.p, n1, fmtParams(copyParams(p1)), capacity, fmtParams(copyParams(p2)))
			return
		}
		if strings.Join(s1, ",") != strings.Join(s2, ",") {
			t.Fail("match-allowed-differs", "step %d %s %q: without cache allowed %v, with cache(cap %d) %v", step, q.m, q.p, s1, capacity, s2)
			return
		}
		if r1 != nil && r2 != nil {
			// the selected route object must describe the same route
			if r1.Path() != r2.Path() || strings.Join(r1.Methods(), ",") != strings.Join(r2.Methods(), ",") || len(r1.Handlers()) != len(r2.Handlers()) {
				t.Fail("match-route-info-differs", "step %d %s %q: route info differs between the twins: %s %v %d handlers vs %s %v %d handlers", step, q.m, q.p, r1.Path(), r1.Methods(), len(r1.Handlers()), r2.Path(), r2.Methods(), len(r2.Handlers()))
				return
			}
		}

		// --- ServeHTTP on both twins ---
		rec1, pv1, pan1 := Serve(plain, NewReq(q.m, q.p))
		rec2, pv2, pan2 := Serve(cached, NewReq(q.m, q.p))
		if pan1 != pan2 {
			t.Fail("serve-panic-differs", "step %d %s %q: panic without cache=%v (%v), with cache=%v (%v)", step, q.m, q.p, pan1, pv1, pan2, pv2)
			return
		}
		if pan1 {
			t.Fail("serve-panic", "step %d %s %q: both twins panicked: %v", step, q.m, q.p, pv1)
			return
		}
		// the Allow header order is sorted by the default handler; custom handler records a sorted copy
		o1, o2 := rec1.Outcome(), rec2.Outcome()
		if a, _ := rec1.Extra["allowed"].([]string); a != nil {
			o1 += fmt.Sprint(a)
		}
		if a, _ := rec2.Extra["allowed"].([]string); a != nil {
			o2 += fmt.Sprint(a)
		}
		if m, _ := rec2.Extra["params_map_itself"].(rux.Params); m != nil && len(kept) < 300 {
			kept = append(kept, retainedParams{m, fmtParams(rec2.Params), q.m + " " + q.p})
		}
		if o1 != o2 {
			t.Fail("serve-outcome-differs", "step %d %s %q: ServeHTTP differs.\n without cache: %s\n with cache(cap %d): %s", step, q.m, q.p, o1, capacity, o2)
			return
		}
		t.Count("steps.compared", 1)
	}
	if c := cached.VerifCachedRoutes(); c != nil {
		if c.Len() > 0 {
			t.Count("observed.cache_nonempty_histories", 1)
		}
		t.Count("observed.cache_entries_at_end", int64(c.Len()))
	}
	if hits > 0 {
		t.NonTrivial(fmt.Sprint(tb.Describe(), cfg.Describe(), capacity, hist))
	}
}

// c07ManyKeys: the largest cache there is, driven through very many distinct paths (each new one
// meets 65535 resident entries); the most recent ones are then asked for again. Route and
// parameters must always be those of the uncached twin.
func c07ManyKeys(t *T) {
	r := t.R
	n := 400000
	if t.E.Thorough() {
		n = 2000000
	}
	const again = 60000
	shape := r.IntN(3)
	base := r.IntN(1 << 30)
	mk := func(rt *rux.Router) {
		h := func(name string) rux.HandlerFunc {
			return func(c *rux.Context) { c.Text(200, name+":"+fmtParams(copyParams(c.Params))) }
		}
		rt.GET("/u/{id}", h("u")).NamedTo("u", rt)
		rt.GET("/v/{id}/x", h("v")).NamedTo("v", rt)
		rt.POST("/u/{id}", h("pu")).NamedTo("pu", rt)
	}
	plain := rux.New()
	mk(plain)
	cached := rux.New(rux.CachingWithNum(65535))
	if chance(r, 1, 2) {
		cached = rux.New(rux.EnableCaching, rux.MaxNumCaches(65535))
	}
	mk(cached)
	path := func(i int) (string, string) {
		var seg string
		switch shape {
		case 0:
			seg = fmt.Sprintf("%d", base+i)
		case 1:
			seg = fmt.Sprintf("%x", base+i*7)
		default:
			seg = fmt.Sprintf("k%d-%d", i%97, base+i)
		}
		switch i % 3 {
		case 0:
			return "GET", "/u/" + seg
		case 1:
			return "GET", "/v/" + seg + "/x"
		}
		return "POST", "/u/" + seg
	}
	t.Describe(func() any { return map[string]any{"keys": n, "shape": shape, "base": base} })
	name := func(rt *rux.Route) string {
		if rt == nil {
			return "<nil>"
		}
		return rt.Name()
	}
	compare := func(pass string, i int) bool {
		m, p := path(i)
		r1, ps1, _ := plain.Match(m, p)
		r2, ps2, _ := cached.Match(m, p)
		n1, n2 := name(r1), name(r2)
		p1, p2 := fmtParams(copyParams(ps1)), fmtParams(copyParams(ps2))
		if n1 != n2 || p1 != p2 {
			t.Fail("many-keys-match-differs", "%s pass, key #%d %s %q: without cache route %q {%s}, with cache route %q {%s}", pass, i, m, p, n1, p1, n2, p2)
			return false
		}
		if i%16 == 0 {
			w1, w2 := NewRec(), NewRec()
			plain.ServeHTTP(w1, NewReq(m, p))
			cached.ServeHTTP(w2, NewReq(m, p))
			if fmt.Sprint(w1.Calls) != fmt.Sprint(w2.Calls) || w1.Body.String() != w2.Body.String() {
				t.Fail("many-keys-serve-differs", "%s pass, key #%d %s %q: without cache %v %q, with cache %v %q", pass, i, m, p, w1.Calls, w1.Body.String(), w2.Calls, w2.Body.String())
				return false
			}
			t.Count("many_keys.served", 1)
		}
		return true
	}
	for i := 0; i < n; i++ {
		if !compare("first", i) {
			return
		}
	}
	t.Count("many_keys.first_pass_compared", int64(n))
	if c := cached.VerifCachedRoutes(); c != nil && c.Len() == 65535 {
		t.Count("many_keys.second_pass_cache_full", 1)
	}
	for i := n - again; i < n; i++ {
		if !compare("second", i) {
			return
		}
	}
	t.Count("many_keys.second_pass_compared", again)
	t.NonTrivial(fmt.Sprint("many-keys", n, shape, base))
}
