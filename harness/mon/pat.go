package mon

import (
	"math/rand/v2"
	"regexp"
	"strings"
	"unicode"
	"unicode/utf8"

	"github.com/gookit/rux"
)

// ---------------------------------------------------------------------------
// Pattern AST of the documented route grammar, an independent (backtracking)
// reference matcher over that AST, and generators. Nothing in this file looks
// at the regexp rux builds from the pattern string.
// ---------------------------------------------------------------------------

// Class is a variable's regex class.
type Class struct {
	ID      string
	Re      string   // custom regex written into the pattern; "" = {name}
	VarName string   // fixed variable name (global vars are selected by name)
	Full    string   // the regex the documentation promises for this class
	Samples []string // values that satisfy the class
	Near    []string // values that do not
	Spans   bool     // can match '/'
	re      *regexp.Regexp
}

var classes = []*Class{
	{ID: "default", Full: `[^/]+`, Samples: []string{"1", "22", "abc", "x.y", "a-b", "v1.0", "a%20b", "%2541", "what?", "a?b=c", "x#y"}, Near: []string{""}},
	{ID: "digits", Re: `\d+`, Full: `\d+`, Samples: []string{"1", "22", "007"}, Near: []string{"a", "1a", ""}},
	{ID: "ac", Re: `[a-c]+`, Full: `[a-c]+`, Samples: []string{"a", "abc", "cab"}, Near: []string{"d", "ab1", ""}},
	{ID: "pos", Re: `[1-9]\d*`, Full: `[1-9]\d*`, Samples: []string{"1", "22", "90"}, Near: []string{"0", "01", "a"}},
	{ID: "word", Re: `\w+`, Full: `\w+`, Samples: []string{"a1", "_c", "abc"}, Near: []string{"a-b", "x.y", ""}},
	{ID: "xy", Re: `(?:x|y)+`, Full: `(?:x|y)+`, Samples: []string{"x", "xy", "yyx"}, Near: []string{"z", "xz", ""}},
	{ID: "ncg2", Re: `(?:ab|cd)-(?:\d+)`, Full: `(?:ab|cd)-(?:\d+)`, Samples: []string{"ab-1", "cd-22", "ab-007"}, Near: []string{"ab", "ab-", "ef-1", ""}}, // begins and ends with a non-capturing group
	{ID: "d2", Re: `\d{2}`, Full: `\d{2}`, Samples: []string{"12", "07"}, Near: []string{"1", "123", "ab"}},
	{ID: "dotplus", Re: `.+`, Full: `.+`, Samples: []string{"a", "a/b", "x.y/1"}, Near: []string{""}, Spans: true},
	{ID: "gnum", VarName: "num", Full: `[1-9][0-9]*`, Samples: []string{"1", "22", "90"}, Near: []string{"0", "01", "a"}},
	{ID: "gany", VarName: "any", Full: `[^/]+`, Samples: []string{"1", "abc", "x.y"}, Near: []string{""}},
	{ID: "gall", VarName: "all", Full: `.*`, Samples: []string{"a", "a/b", "ab/x.y/1"}, Spans: true},
	// a variable that is NAMED like a global var but carries its own regex: the inline regex is the contract
	{ID: "any-ac", VarName: "any", Re: `[a-c]+`, Full: `[a-c]+`, Samples: []string{"a", "abc", "cab"}, Near: []string{"d", "ab1", "x.y"}},
	{ID: "all-word", VarName: "all", Re: `\w+`, Full: `\w+`, Samples: []string{"a1", "_c", "abc"}, Near: []string{"a-b", "a/b", ""}},
	{ID: "num-zero", VarName: "num", Re: `0\d*`, Full: `0\d*`, Samples: []string{"0", "007", "01"}, Near: []string{"1", "12", "a"}},
	// variable names are case-sensitive: a name that differs from a global var only by case is a plain variable
	{ID: "cap-all", VarName: "All", Full: `[^/]+`, Samples: []string{"1", "abc", "x.y"}, Near: []string{"", "a/b"}},
	{ID: "cap-num", VarName: "NUM", Full: `[^/]+`, Samples: []string{"abc", "0", "x.y"}, Near: []string{""}},
	{ID: "cap-slug", VarName: "Slug", Full: `[^/]+`, Samples: []string{"A", "x.y", "a_b"}, Near: []string{""}},
	// a user-defined global var (SetGlobalVar is called once, before any router exists)
	{ID: "gslug", VarName: "slug", Full: `[a-z0-9-]+`, Samples: []string{"a-b", "abc", "v1-0", "007"}, Near: []string{"A", "x.y", "a_b", ""}},
}

var classByID = map[string]*Class{}

func init() {
	rux.SetGlobalVar("slug", `[a-z0-9-]+`)
	for _, c := range classes {
		c.re = regexp.MustCompile(`^(?:` + c.Full + `)$`)
		classByID[c.ID] = c
	}
}

var litWords = []string{"a", "b", "ab", "x.y", "v1.0", "a-b", "_c", "users", "blog"}
var freeVarNames = []string{"id", "name", "x", "y", "uid", "p", "q"}
var bareTails = []string{".html", ".json", "-x", ".v2"}

// Var is one variable.
type Var struct {
	Name  string
	Class *Class
}

// Seg is one path segment: Pre {Var} Suf, or a pure literal (Var == nil, text in Pre).
type Seg struct {
	Pre string
	Var *Var
	Suf string
}

// Opt is one optional tail level: either a bare literal appended to the path
// so far ("[.html]") or one or more complete segments ("[/a/{x}]").
type Opt struct {
	Lit  string
	Segs []Seg
}

// Pattern is mandatory segments followed by nested optional tails.
type Pattern struct {
	Segs []Seg
	Opts []Opt
}

func (s Seg) String() string {
	if s.Var == nil {
		return s.Pre
	}
	v := "{" + s.Var.Name
	if s.Var.Class.Re != "" {
		v += ":" + s.Var.Class.Re
	}
	return s.Pre + v + "}" + s.Suf
}

func segsString(ss []Seg) string {
	var b strings.Builder
	for _, s := range ss {
		b.WriteByte('/')
		b.WriteString(s.String())
	}
	return b.String()
}

// String renders the pattern in rux syntax.
func (p *Pattern) String() string {
	var b strings.Builder
	b.WriteString(segsString(p.Segs))
	if len(p.Segs) == 0 {
		b.WriteByte('/')
	}
	for _, o := range p.Opts {
		b.WriteByte('[')
		if o.Lit != "" {
			b.WriteString(o.Lit)
		} else {
			b.WriteString(segsString(o.Segs))
		}
	}
	b.WriteString(strings.Repeat("]", len(p.Opts)))
	return b.String()
}

func (p *Pattern) IsStatic() bool {
	if len(p.Opts) > 0 {
		return false
	}
	for _, s := range p.Segs {
		if s.Var != nil {
			return false
		}
	}
	return true
}

// Vars returns the variables in pattern order; depth[i] is the optional level
// (0 = mandatory part) the i-th variable lives in.
func (p *Pattern) Vars() (vs []*Var, depth []int) {
	for _, s := range p.Segs {
		if s.Var != nil {
			vs = append(vs, s.Var)
			depth = append(depth, 0)
		}
	}
	for i, o := range p.Opts {
		for _, s := range o.Segs {
			if s.Var != nil {
				vs = append(vs, s.Var)
				depth = append(depth, i+1)
			}
		}
	}
	return
}

func (p *Pattern) HasVars() bool {
	vs, _ := p.Vars()
	return len(vs) > 0
}

// BeginsWithLiteralSegment reports whether the pattern "begins with a complete
// literal first segment followed by '/'" (the preferred group of the statement):
// the first mandatory segment is a pure literal and a second mandatory segment follows.
func (p *Pattern) BeginsWithLiteralSegment() bool {
	return len(p.Segs) >= 2 && p.Segs[0].Var == nil
}

// AnySpans reports whether some variable's class can match '/'.
func (p *Pattern) AnySpans() bool {
	vs, _ := p.Vars()
	for _, v := range vs {
		if v.Class.Spans {
			return true
		}
	}
	return false
}

type tok struct {
	lit string
	v   *Var
}

func appendSegToks(ts []tok, ss []Seg) []tok {
	for _, s := range ss {
		ts = append(ts, tok{lit: "/" + s.Pre})
		if s.Var != nil {
			ts = append(ts, tok{v: s.Var})
			if s.Suf != "" {
				ts = append(ts, tok{lit: s.Suf})
			}
		}
	}
	return ts
}

// tokens returns the token sequence when the first k optional levels are present.
func (p *Pattern) tokens(k int) []tok {
	var ts []tok
	ts = appendSegToks(ts, p.Segs)
	if len(p.Segs) == 0 {
		ts = append(ts, tok{lit: "/"})
	}
	for i := 0; i < k; i++ {
		o := p.Opts[i]
		if o.Lit != "" {
			ts = append(ts, tok{lit: o.Lit})
		} else {
			ts = appendSegToks(ts, o.Segs)
		}
	}
	return ts
}

// matchToks enumerates all ways the token sequence matches the whole of path.
// cb gets the variable values in token order and returns true to stop.
func matchToks(ts []tok, path string, vals []string, cb func([]string) bool) bool {
	if len(ts) == 0 {
		if path == "" {
			return cb(vals)
		}
		return false
	}
	t := ts[0]
	if t.v == nil {
		if !strings.HasPrefix(path, t.lit) {
			return false
		}
		return matchToks(ts[1:], path[len(t.lit):], vals, cb)
	}
	for j := 0; j <= len(path); j++ {
		sub := path[:j]
		if !t.v.Class.Spans && strings.IndexByte(sub, '/') >= 0 {
			break
		}
		if !t.v.Class.re.MatchString(sub) {
			continue
		}
		if matchToks(ts[1:], path[j:], append(vals, sub), cb) {
			return true
		}
	}
	return false
}

// Decomp is one way a path decomposes under a pattern.
type Decomp struct {
	Depth  int               // number of present optional levels
	Params map[string]string // all variables; those of absent levels are ""
}

// RefMatch enumerates the decompositions of path under p (at most max; 0 = only existence).
func (p *Pattern) RefMatch(path string, max int) (ds []Decomp, ok bool) {
	vs, depth := p.Vars()
	for k := 0; k <= len(p.Opts); k++ {
		ts := p.tokens(k)
		stop := matchToks(ts, path, nil, func(vals []string) bool {
			ok = true
			if max == 0 {
				return true
			}
			ps := make(map[string]string, len(vs))
			vi := 0
			for i, v := range vs {
				if depth[i] <= k {
					ps[v.Name] = vals[vi]
					vi++
				} else {
					ps[v.Name] = ""
				}
			}
			ds = append(ds, Decomp{Depth: k, Params: ps})
			return len(ds) >= max
		})
		if stop {
			return
		}
	}
	return
}

// Matches reports whether path matches p.
func (p *Pattern) Matches(path string) bool {
	_, ok := p.RefMatch(path, 0)
	return ok
}

// ---------------------------------------------------------------------------
// reference normaliser (C11): defined on the unambiguous sub-language only
// ---------------------------------------------------------------------------

func isBlank(b byte) bool {
	return b == ' ' || b == '\t' || b == '\n' || b == '\r' || b == '\v' || b == '\f'
}

// RefNormalize returns the normal form of a path string, and ok=false when the
// string is outside the sub-language ws* '/'* core '/'* ws* (core neither starts
// nor ends with white space or '/'), where the documentation fixes the normal form.
// Only ASCII white space is considered; callers do not use other blanks.
func RefNormalize(s string, strict bool) (string, bool) {
	// white space is what Unicode calls white space (U+0085, U+00A0, U+2028, U+3000 ... too), rune by rune
	i, j := 0, len(s)
	for i < j {
		c, n := utf8.DecodeRuneInString(s[i:j])
		if !unicode.IsSpace(c) {
			break
		}
		i += n
	}
	for j > i {
		c, n := utf8.DecodeLastRuneInString(s[i:j])
		if !unicode.IsSpace(c) {
			break
		}
		j -= n
	}
	t := s[i:j]
	a, b := 0, len(t)
	for a < b && t[a] == '/' {
		a++
	}
	for b > a && t[b-1] == '/' {
		b--
	}
	core := t[a:b]
	if core == "" {
		return "/", true
	}
	first, _ := utf8.DecodeRuneInString(core)
	last, _ := utf8.DecodeLastRuneInString(core)
	if unicode.IsSpace(first) || unicode.IsSpace(last) {
		return "", false
	}
	if strict {
		return "/" + core + t[b:], true
	}
	return "/" + core, true
}

// ---------------------------------------------------------------------------
// generators
// ---------------------------------------------------------------------------

type patGen struct {
	r     *rand.Rand
	names map[string]bool
}

func (g *patGen) newVar() *Var {
	for tries := 0; tries < 20; tries++ {
		c := pick(g.r, classes)
		// default class twice as likely
		if chance(g.r, 1, 3) {
			c = classes[0]
		}
		name := c.VarName
		if name == "" {
			name = pick(g.r, freeVarNames)
		}
		if g.names[name] {
			continue
		}
		g.names[name] = true
		return &Var{Name: name, Class: c}
	}
	return nil
}

func (g *patGen) seg(varProb int) Seg {
	if g.r.IntN(100) < varProb {
		if v := g.newVar(); v != nil {
			s := Seg{Var: v}
			if chance(g.r, 1, 4) {
				s.Pre = pick(g.r, []string{"v", "x.", "a-", "_"})
			}
			if chance(g.r, 1, 4) {
				s.Suf = pick(g.r, []string{".html", "-b", ".v1", "_"})
			}
			return s
		}
	}
	return Seg{Pre: pick(g.r, litWords)}
}

// GenPattern draws a pattern. kind: 0 any, 1 static, 2 dynamic.
func GenPattern(r *rand.Rand, kind int) *Pattern {
	g := &patGen{r: r, names: map[string]bool{}}
	p := &Pattern{}
	if kind == 0 {
		if chance(r, 1, 4) {
			kind = 1
		} else {
			kind = 2
		}
	}
	n := 1 + r.IntN(3)
	if chance(r, 1, 8) {
		n = 4
	}
	if kind == 1 {
		for i := 0; i < n; i++ {
			p.Segs = append(p.Segs, Seg{Pre: pick(r, litWords)})
		}
		return p
	}
	// the first segment decides the tier: make variable-first patterns frequent
	firstVar := 35
	for i := 0; i < n; i++ {
		vp := 50
		if i == 0 {
			vp = firstVar
		}
		p.Segs = append(p.Segs, g.seg(vp))
	}
	// optional tails
	x := r.IntN(100)
	levels := 0
	switch {
	case x < 30:
		levels = 1
	case x < 42:
		levels = 2
	}
	for l := 0; l < levels; l++ {
		if chance(r, 3, 10) {
			p.Opts = append(p.Opts, Opt{Lit: pick(r, bareTails)})
		} else {
			k := 1
			if chance(r, 1, 4) {
				k = 2
			}
			var o Opt
			for i := 0; i < k; i++ {
				o.Segs = append(o.Segs, g.seg(55))
			}
			p.Opts = append(p.Opts, o)
		}
	}
	if p.IsStatic() {
		// asked for a dynamic pattern: force a variable or an optional part
		if v := g.newVar(); v != nil {
			p.Segs[len(p.Segs)-1] = Seg{Var: v}
		}
	}
	// a spanning class (.+ / .*) followed by anything makes leftmost-greedy
	// decompositions ambiguous but still checkable; keep them, they are legal.
	return p
}

// Instantiate builds a path that matches p (depth chosen at random).
func (p *Pattern) Instantiate(r *rand.Rand) (string, int) {
	k := r.IntN(len(p.Opts) + 1)
	var b strings.Builder
	for _, t := range p.tokens(k) {
		if t.v == nil {
			b.WriteString(t.lit)
		} else {
			b.WriteString(pick(r, t.v.Class.Samples))
		}
	}
	return b.String(), k
}

// InstantiateNear builds a path that is like an instantiation but with one
// variable value outside its class.
func (p *Pattern) InstantiateNear(r *rand.Rand) string {
	k := r.IntN(len(p.Opts) + 1)
	ts := p.tokens(k)
	var vi []int
	for i, t := range ts {
		if t.v != nil && len(t.v.Class.Near) > 0 {
			vi = append(vi, i)
		}
	}
	bad := -1
	if len(vi) > 0 {
		bad = pick(r, vi)
	}
	var b strings.Builder
	for i, t := range ts {
		switch {
		case t.v == nil:
			b.WriteString(t.lit)
		case i == bad:
			b.WriteString(pick(r, t.v.Class.Near))
		default:
			b.WriteString(pick(r, t.v.Class.Samples))
		}
	}
	return b.String()
}

var pathAlphabet = []string{"a", "b", "ab", "x.y", "v1.0", "1", "22", "abc", "xay", "v1x0", "users", "blog", "x", "007", ".html", "a-b", "_c"}

// MutatePath applies one small mutation to a path.
func MutatePath(r *rand.Rand, path string) string {
	segs := strings.Split(strings.TrimPrefix(path, "/"), "/")
	switch r.IntN(10) {
	case 9: // trailing white space that is not ASCII (insignificant like a blank), also behind trailing slashes
		return path + pick(r, []string{"", "", "/", "//"}) + pick(r, []string{"\u00a0", "\u2028", "\u3000", "\u0085", "\u2003 ", " \u00a0"})
	case 0: // drop a segment
		if len(segs) > 1 {
			i := r.IntN(len(segs))
			segs = append(segs[:i:i], segs[i+1:]...)
		}
	case 1: // add a segment
		i := r.IntN(len(segs) + 1)
		segs = append(segs[:i:i], append([]string{pick(r, pathAlphabet)}, segs[i:]...)...)
	case 2: // duplicate a segment
		i := r.IntN(len(segs))
		segs = append(segs[:i:i], append([]string{segs[i]}, segs[i:]...)...)
	case 3: // replace a '.' by another character
		if i := strings.IndexByte(path, '.'); i >= 0 {
			return path[:i] + pick(r, []string{"a", "x", "-", "1"}) + path[i+1:]
		}
	case 4: // change one character
		if len(path) > 1 {
			i := 1 + r.IntN(len(path)-1)
			if path[i] != '/' {
				return path[:i] + pick(r, []string{"a", "1", "z", ".", "-"}) + path[i+1:]
			}
		}
	case 5: // trailing slash(es) (insignificant in non-strict mode)
		return path + pick(r, []string{"/", "/", "//", "///"})
	case 6: // missing leading slash / doubled, tripled ... leading slash
		if chance(r, 1, 2) {
			return strings.TrimPrefix(path, "/")
		}
		return pick(r, []string{"/", "/", "//", "///"}) + path
	case 7: // append a bare tail
		return path + pick(r, bareTails)
	case 8: // replace a segment
		i := r.IntN(len(segs))
		segs[i] = pick(r, pathAlphabet)
	}
	return "/" + strings.Join(segs, "/")
}

// RandomPath draws a random path over the alphabet.
func RandomPath(r *rand.Rand) string {
	n := 1 + r.IntN(4)
	var b strings.Builder
	for i := 0; i < n; i++ {
		b.WriteByte('/')
		b.WriteString(pick(r, pathAlphabet))
	}
	return b.String()
}

// ---------------------------------------------------------------------------
// route tables and the reference resolver
// ---------------------------------------------------------------------------

var AllMethods = []string{"GET", "POST", "PUT", "PATCH", "DELETE", "OPTIONS", "HEAD", "CONNECT", "TRACE"}

type RouteSpec struct {
	Name    string
	Pat     *Pattern
	Methods []string
	// Grp > 0: the route is registered inside Grp nested Group() calls whose prefixes are the
	// first Grp literal segments of the pattern; GrpRel: the inner prefix is given without
	// its leading slash. The full path is the same text either way.
	Grp    int
	GrpRel bool
	// Prepared: the route object is built first (NewNamedRoute) from a scratch slice of method names that the
	// application reuses for its next table entry before the route is attached
	Prepared bool
}

// groupable returns how many leading segments of the pattern can be moved into group prefixes.
func (p *Pattern) groupable() int {
	k := 0
	for k < len(p.Segs)-1 && k < 2 {
		sg := p.Segs[k]
		txt := sg.String()
		if strings.TrimSpace(txt) != txt || txt == "" || strings.ContainsAny(sg.Pre+sg.Suf, "[]{}*") {
			break
		}
		if sg.Var != nil && strings.ContainsAny(sg.Var.Class.Re, " /") {
			break
		}
		k++ // literal segments and segments with a variable alike: a group prefix may contain variables
	}
	return k
}

// Register adds the route to the router (directly, or inside nested groups).
func (rs *RouteSpec) Register(r *rux.Router, h rux.HandlerFunc) (route *rux.Route) {
	addNamed := func(path string) *rux.Route {
		if !rs.Prepared {
			return r.AddNamed(rs.Name, path, h, rs.Methods...)
		}
		buf := append(make([]string, 0, len(rs.Methods)+2), rs.Methods...)
		rt := rux.NewNamedRoute(rs.Name, path, h, buf...)
		for i := range buf {
			buf[i] = "NEXT-ENTRY" // the buffer is the application's: it goes on to the next entry of its table
		}
		rt.AttachTo(r)
		return rt
	}
	if rs.Grp == 0 {
		return addNamed(rs.Pat.String())
	}
	rest := &Pattern{Segs: rs.Pat.Segs[rs.Grp:], Opts: rs.Pat.Opts}
	add := func() { route = addNamed(rest.String()) }
	if rs.Grp == 1 {
		pre := segsString(rs.Pat.Segs[:1])
		if rs.GrpRel {
			pre = pre[1:]
		}
		r.Group(pre, add)
		return
	}
	inner := segsString(rs.Pat.Segs[1:2])
	if rs.GrpRel {
		inner = inner[1:]
	}
	r.Group(segsString(rs.Pat.Segs[:1]), func() { r.Group(inner, add) })
	return
}

// NewRouterVia applies the options through rux.New (0), through WithOptions on
// a fresh router (1) or half and half (2): the outcome must be the same.
func NewRouterVia(via int, opts ...func(*rux.Router)) *rux.Router {
	switch via {
	case 1:
		r := rux.New()
		r.WithOptions(opts...)
		return r
	case 2:
		k := len(opts) / 2
		r := rux.New(opts[:k]...)
		r.WithOptions(opts[k:]...)
		return r
	}
	return rux.New(opts...)
}

func (rs *RouteSpec) Allows(m string) bool {
	for _, x := range rs.Methods {
		if x == m {
			return true
		}
	}
	return false
}

type Table struct {
	Routes []*RouteSpec
	Via    int // how the router options are applied (NewRouterVia)
}

func (tb *Table) Describe() any {
	var out []map[string]any
	for _, r := range tb.Routes {
		m := map[string]any{"name": r.Name, "path": r.Pat.String(), "methods": strings.Join(r.Methods, ",")}
		if r.Grp > 0 {
			m["registered_inside_nested_groups(prefixes = leading segments, literal or variable)"] = r.Grp
			m["inner_prefix_without_leading_slash"] = r.GrpRel
		}
		if r.Prepared {
			m["built_with_NewNamedRoute_from_a_scratch_slice_that_is_reused_before_AttachTo"] = true
		}
		out = append(out, m)
	}
	if tb.Via != 0 {
		out = append(out, map[string]any{"router_options_applied": []string{"", "New() then WithOptions(all)", "New(first half) then WithOptions(rest)"}[tb.Via]})
	}
	return out
}

// GenMethods draws a non-empty subset of the nine methods.
func GenMethods(r *rand.Rand, skew int) []string {
	var ms []string
	switch x := r.IntN(100); {
	case x < skew: // single GET is the common case
		return []string{"GET"}
	case x < skew+10:
		return append([]string{}, AllMethods...)
	}
	for _, m := range AllMethods {
		if chance(r, 1, 3) {
			ms = append(ms, m)
		}
	}
	if len(ms) == 0 {
		ms = []string{pick(r, AllMethods)}
	}
	return ms
}

// GenTable draws a route table with n routes. No two static routes share a
// (method, path) pair, as the property's quantifier demands.
func GenTable(r *rand.Rand, n int, getSkew int) *Table {
	tb := &Table{}
	static := map[string]bool{}
	for len(tb.Routes) < n {
		p := GenPattern(r, 0)
		// sometimes derive a pattern from an earlier one so that routes overlap
		if len(tb.Routes) > 0 && chance(r, 1, 3) {
			p = deriveOverlap(r, pick(r, tb.Routes).Pat)
		}
		ms := GenMethods(r, getSkew)
		if p.IsStatic() {
			var keep []string
			for _, m := range ms {
				if !static[m+p.String()] {
					keep = append(keep, m)
				}
			}
			if len(keep) == 0 {
				continue
			}
			ms = keep
			for _, m := range ms {
				static[m+p.String()] = true
			}
		}
		rs := &RouteSpec{Name: "r" + itoa(len(tb.Routes)), Pat: p, Methods: ms}
		if k := p.groupable(); k > 0 && chance(r, 1, 4) {
			rs.Grp = 1 + r.IntN(k)
			rs.GrpRel = chance(r, 1, 2)
		}
		rs.Prepared = chance(r, 1, 6)
		tb.Routes = append(tb.Routes, rs)
	}
	tb.Via = pick(r, []int{0, 0, 1, 2})
	return tb
}

// deriveOverlap makes a new pattern that is likely to match some of the same paths as q.
func deriveOverlap(r *rand.Rand, q *Pattern) *Pattern {
	g := &patGen{r: r, names: map[string]bool{}}
	p := &Pattern{}
	for _, s := range q.Segs {
		switch {
		case s.Var == nil && chance(r, 1, 3):
			if v := g.newVar(); v != nil {
				p.Segs = append(p.Segs, Seg{Var: v})
				continue
			}
			p.Segs = append(p.Segs, s)
		case s.Var != nil && chance(r, 1, 3):
			p.Segs = append(p.Segs, Seg{Pre: pick(r, s.Var.Class.Samples[:1])})
		case s.Var != nil:
			if v := g.newVar(); v != nil {
				p.Segs = append(p.Segs, Seg{Pre: s.Pre, Var: v, Suf: s.Suf})
			} else {
				p.Segs = append(p.Segs, Seg{Pre: "a"})
			}
		default:
			p.Segs = append(p.Segs, s)
		}
	}
	if len(q.Opts) > 0 && chance(r, 1, 2) {
		// turn the first optional level into a mandatory part or keep it optional
		o := q.Opts[0]
		if o.Lit == "" {
			var ns []Seg
			for _, s := range o.Segs {
				if s.Var != nil {
					if v := g.newVar(); v != nil {
						ns = append(ns, Seg{Pre: s.Pre, Var: v, Suf: s.Suf})
						continue
					}
					ns = append(ns, Seg{Pre: "b"})
				} else {
					ns = append(ns, s)
				}
			}
			if chance(r, 1, 2) {
				p.Segs = append(p.Segs, ns...)
			} else {
				p.Opts = append(p.Opts, Opt{Segs: ns})
			}
		} else {
			p.Opts = append(p.Opts, o)
		}
	} else if chance(r, 1, 4) {
		p.Opts = append(p.Opts, Opt{Segs: []Seg{g.seg(60)}})
	}
	if len(p.Segs) == 0 {
		p.Segs = []Seg{{Pre: "a"}}
	}
	return p
}

func itoa(i int) string {
	if i == 0 {
		return "0"
	}
	neg := i < 0
	if neg {
		i = -i
	}
	var b [20]byte
	n := len(b)
	for i > 0 {
		n--
		b[n] = byte('0' + i%10)
		i /= 10
	}
	if neg {
		n--
		b[n] = '-'
	}
	return string(b[n:])
}

// Resolve is the reference route selection for an exact method (no fallbacks):
// index of the winning route or -1, and the number of routes that qualify.
// kf2 selects the variant in which optional-only patterns (no variable) are ranked
// with the second group (known finding KF2).
func (tb *Table) Resolve(method, npath string, kf2 bool) (win int, nq int) {
	win = -1
	firstPreferred, firstOther := -1, -1
	for i, rt := range tb.Routes {
		if !rt.Allows(method) || !rt.Pat.Matches(npath) {
			continue
		}
		nq++
		if rt.Pat.IsStatic() {
			if win < 0 {
				win = i
			}
			continue
		}
		pref := rt.Pat.BeginsWithLiteralSegment()
		if kf2 && !rt.Pat.HasVars() {
			pref = false
		}
		if pref {
			if firstPreferred < 0 {
				firstPreferred = i
			}
		} else if firstOther < 0 {
			firstOther = i
		}
	}
	if win >= 0 {
		return
	}
	if firstPreferred >= 0 {
		return firstPreferred, nq
	}
	return firstOther, nq
}

// Probe is one request path with the way it was derived.
type Probe struct {
	Path string
	Kind string // inst | mut | near | rand
}

// ProbePaths builds the probe set for a table.
func (tb *Table) ProbePaths(r *rand.Rand, perRoute, random int) []Probe {
	var ps []Probe
	for _, rt := range tb.Routes {
		for i := 0; i < perRoute; i++ {
			p, _ := rt.Pat.Instantiate(r)
			ps = append(ps, Probe{p, "inst"})
			switch r.IntN(3) {
			case 0:
				ps = append(ps, Probe{MutatePath(r, p), "mut"})
			case 1:
				ps = append(ps, Probe{rt.Pat.InstantiateNear(r), "near"})
			}
		}
	}
	for i := 0; i < random; i++ {
		ps = append(ps, Probe{RandomPath(r), "rand"})
	}
	ps = append(ps, Probe{"/", "rand"})
	return ps
}
