package mon

import (
	"context"
	"encoding/json"
	"errors"
	"fmt"
	"io"
	"math/rand/v2"
	"net/http"
	"strings"
	"time"

	"github.com/gookit/rux"
	"github.com/gookit/rux/pkg/handlers"
)

func init() { Monitors["C08"] = runC08 }

// respOp is one response operation performed by a handler.
type respOp struct {
	Kind string // status | header | write | flush | error | redirect | text | json | nocontent | writestring
	Code int
	Data string
}

func (o respOp) String() string {
	switch o.Kind {
	case "status":
		return fmt.Sprintf("SetStatus(%d)", o.Code)
	case "header":
		return "SetHeader(X-K," + o.Data + ")"
	case "write":
		return fmt.Sprintf("Resp.Write(%q)", o.Data)
	case "writestring":
		return fmt.Sprintf("WriteString(%q)", o.Data)
	case "abortstatus":
		return fmt.Sprintf("AbortWithStatus(%d)", o.Code)
	case "flush":
		if o.Data == "rc" {
			return "http.NewResponseController(c.Resp).Flush()"
		}
		return "Flush"
	case "error":
		return fmt.Sprintf("http.Error(%q,%d)", o.Data, o.Code)
	case "redirect":
		return fmt.Sprintf("http.Redirect(/to,%d)", o.Code)
	case "text":
		return fmt.Sprintf("Text(%d,%q)", o.Code, o.Data)
	case "json":
		return fmt.Sprintf("JSON(%d,%q)", o.Code, o.Data)
	case "nocontent":
		return "NoContent"
	case "adderror":
		return "AddError"
	case "copy":
		return fmt.Sprintf("io.Copy(Resp, plain reader of %q)", o.Data)
	case "stream":
		return fmt.Sprintf("Stream(%d, application/octet-stream, reader of %q)", o.Code, o.Data)
	case "nested":
		return fmt.Sprintf("WrapH(inner rux router: SetStatus(%d); Write(%q))", o.Code, o.Data)
	case "redispatch":
		return "HandleContext(-> /y)"
	}
	return o.Kind
}

func opsStr(ops []respOp) string {
	ss := make([]string, len(ops))
	for i, o := range ops {
		ss[i] = o.String()
	}
	return strings.Join(ss, "; ")
}

// apply performs the operation on the live context.
func (o respOp) apply(c *rux.Context) {
	switch o.Kind {
	case "status":
		c.SetStatus(o.Code)
	case "header":
		c.SetHeader("X-K", o.Data)
	case "write":
		_, _ = c.Resp.Write([]byte(o.Data))
	case "writestring":
		c.WriteString(o.Data)
	case "flush":
		func() {
			// (with an underlying writer that is no http.Flusher the flush may panic after it has
			// committed the header; the handler shields itself)
			defer func() {
				if rv := recover(); rv != nil {
					recOf(c).Ev("flush-panicked")
				}
			}()
			if o.Data == "rc" {
				// the standard library's way to flush "whatever writer this is"
				_ = http.NewResponseController(c.Resp).Flush()
				return
			}
			c.Resp.(http.Flusher).Flush()
		}()
	case "abortstatus":
		c.AbortWithStatus(o.Code) // in the last handler of the chain: records the status, nothing left to stop
	case "error":
		http.Error(c.Resp, o.Data, o.Code)
	case "redirect":
		http.Redirect(c.Resp, c.Req, "/to", o.Code)
	case "text":
		c.Text(o.Code, o.Data)
	case "json":
		c.JSON(o.Code, o.Data)
	case "nocontent":
		c.NoContent()
	case "adderror":
		c.AddError(errors.New("recorded error"))
	case "stream":
		c.Stream(o.Code, "application/octet-stream", strings.NewReader(o.Data))
	case "copy":
		// io.Copy from a reader WITHOUT WriteTo: uses the destination's ReadFrom if it has one
		_, _ = io.Copy(c.Resp, io.LimitReader(strings.NewReader(o.Data), int64(len(o.Data))))
	case "nested":
		// another rux router mounted as a plain http.Handler (WrapH): it gets THIS request's
		// response writer and runs a complete dispatch of its own on it
		inner := rux.New()
		status, body := o.Code, o.Data
		for _, p := range []string{"/x", "/y"} { // (/y: the request path after a re-dispatch)
			inner.GET(p, func(ic *rux.Context) {
				ic.SetStatus(status)
				if body != "" {
					_, _ = ic.Resp.Write([]byte(body))
				}
			})
			inner.POST(p, func(ic *rux.Context) { ic.SetStatus(status) })
		}
		rux.WrapH(inner)(c)
	case "redispatch":
		// hand the context back to the router for another path (HandleContext), once
		if c.Req.URL.Path != "/y" {
			c.Req.URL.Path = "/y"
			c.Router().HandleContext(c)
		}
	}
}

// respModel is the reference state machine unset -> recorded(code) -> committed.
type respModel struct {
	recorded  int
	committed bool
	log       []Call
	body      []byte
	length    int
	nWrite    int
	failAt    int
	short     int
	headerX   string // value of X-K at commit time
	curX      string
	method    string
	hasCT     bool // a Content-Type header has been set (http.Redirect writes its body only if none was)
	errRec    bool // an error was recorded in the context (AddError, or a renderer whose write failed)
	noFlusher bool // the underlying writer is no http.Flusher
}

func (m *respModel) status(code int) {
	if code > 0 && !m.committed {
		m.recorded = code
	}
}

func (m *respModel) commit() {
	if m.committed {
		return
	}
	m.committed = true
	st := m.recorded
	if st == 0 {
		st = 200
	}
	m.headerX = m.curX
	m.log = append(m.log, Call{Kind: "WH", Code: st})
}

func (m *respModel) write(b []byte) (failed bool) {
	m.commit()
	m.nWrite++
	n := len(b)
	if m.failAt > 0 && m.nWrite == m.failAt {
		failed = true
		if m.short < n {
			n = m.short
		}
	}
	m.body = append(m.body, b[:n]...)
	m.length += n
	m.log = append(m.log, Call{Kind: "W", N: n, Ask: len(b)})
	return
}

func (m *respModel) flush() {
	m.commit()
	m.log = append(m.log, Call{Kind: "F"})
}

// step applies one operation to the model. The helpers are expanded into the
// status / write primitives their documentation promises.
func (m *respModel) step(o respOp) {
	switch o.Kind {
	case "status":
		m.status(o.Code)
	case "header":
		m.curX = o.Data
	case "write", "writestring":
		m.write([]byte(o.Data))
	case "flush":
		if m.noFlusher {
			m.commit() // the commit happens, the flush itself cannot reach the underlying writer
		} else {
			m.flush()
		}
	case "abortstatus":
		m.status(o.Code)
	case "error":
		m.hasCT = true
		m.status(o.Code)
		m.write([]byte(o.Data + "\n"))
	case "redirect":
		hadCT := m.hasCT
		if !hadCT && (m.method == "GET" || m.method == "HEAD") {
			m.hasCT = true
		}
		m.status(o.Code)
		if !hadCT && m.method == "GET" {
			m.write([]byte("<a href=\"/to\">" + http.StatusText(o.Code) + "</a>.\n\n"))
		}
	case "text":
		m.hasCT = true
		m.status(o.Code)
		if len(o.Data) > 0 {
			m.write([]byte(o.Data))
		}
	case "json":
		m.hasCT = true
		m.status(o.Code)
		enc, _ := json.Marshal(o.Data) // independent encoder; escapes HTML like the documented renderer
		if m.write(append(enc, '\n')) {
			m.errRec = true // Respond() records the renderer's error in the context
		}
	case "adderror":
		m.errRec = true
	case "copy":
		if len(o.Data) > 0 {
			m.write([]byte(o.Data))
		}
	case "stream":
		// the documented helper: status, Content-Type, then the reader's bytes (none for an empty source:
		// the header is then committed where the statement puts it, not by the helper)
		m.hasCT = true
		m.status(o.Code)
		if len(o.Data) > 0 && m.write([]byte(o.Data)) {
			m.errRec = true // Stream records the copy error in the context
		}
	case "nested":
		// the inner router works on THIS request's (lazy) response writer: its status reaches us as a
		// status setting, its body as a write; its own end-of-dispatch "commit" is again only a
		// status setting on our writer - the real commit stays where the statement puts it
		m.status(o.Code)
		if o.Data != "" && m.method == "GET" {
			m.write([]byte(o.Data))
		}
	case "nocontent":
		m.status(204)
	}
}

// dropEmptyWrites removes zero-length Write calls: whether an empty write is
// forwarded to the underlying writer is not part of the statement (that it
// commits the header is, and stays checked through the WriteHeader entry).
func dropEmptyWrites(cs []Call) []Call {
	out := make([]Call, 0, len(cs))
	for _, c := range cs {
		if c.Kind == "W" && c.Ask == 0 {
			continue
		}
		out = append(out, c)
	}
	return out
}

func callsEqual(a, b []Call) bool {
	a, b = dropEmptyWrites(a), dropEmptyWrites(b)
	if len(a) != len(b) {
		return false
	}
	for i := range a {
		if a[i] != b[i] {
			return false
		}
	}
	return true
}

func callLog(cs []Call) string {
	ss := make([]string, len(cs))
	for i, c := range cs {
		ss[i] = c.String()
	}
	return strings.Join(ss, " ")
}

// c08Prog: ops distributed over the handlers of a chain; pre[i] runs before
// handler i calls Next(), post[i] after.
type c08Prog struct {
	Pre, Post  [][]respOp
	NGlobal    int
	FailAt     int
	Short      int
	Method     string
	OnError    []respOp // nil = no OnError hook; else what the hook does (may be empty)
	HasHook    bool
	ReaderFrom bool     // the underlying writer implements io.ReaderFrom
	NoFlusher  bool     // the underlying writer is no http.Flusher
	Direct     bool     // the (single) handler is mounted as a plain http.Handler: rux.HandlerFunc(h).ServeHTTP, no router
	Redispatch []respOp // what the handler of /y does when the (single) handler re-dispatches
	// pkg/handlers.Timeout is the first global middleware and the request's deadline has passed already: when
	// the chain comes back to it the middleware records 504 (a status setting like any other, behind all others)
	ExpiredBehindTimeout bool
}

func (p c08Prog) describe() any {
	var hs []string
	for i := range p.Pre {
		role := "route-mw"
		if i < p.NGlobal {
			role = "global"
		}
		if i == len(p.Pre)-1 {
			role = "main"
		}
		hs = append(hs, fmt.Sprintf("h%d[%s] before Next: {%s} after Next: {%s}", i, role, opsStr(p.Pre[i]), opsStr(p.Post[i])))
	}
	if p.HasHook {
		hs = append(hs, fmt.Sprintf("OnError hook: {%s}", opsStr(p.OnError)))
	}
	if p.Redispatch != nil {
		hs = append(hs, fmt.Sprintf("handler of /y (re-dispatch target): {%s}", opsStr(p.Redispatch)))
	}
	if p.ReaderFrom {
		hs = append(hs, "underlying writer implements io.ReaderFrom")
	}
	if p.NoFlusher {
		hs = append(hs, "underlying writer is no http.Flusher")
	}
	if p.Direct {
		hs = append(hs, "the handler is used as a plain http.Handler (rux.HandlerFunc.ServeHTTP), without a router")
	}
	if p.ExpiredBehindTimeout {
		hs = append(hs, "pkg/handlers.Timeout first, the request's deadline has already passed")
	}
	return map[string]any{"method": p.Method, "handlers": hs, "writer_fault": fmt.Sprintf("write #%d accepts %d bytes then errors (0 = none)", p.FailAt, p.Short)}
}

func (p c08Prog) order() []respOp {
	var ops []respOp
	for i := range p.Pre {
		for _, o := range p.Pre[i] {
			if o.Kind == "redispatch" {
				// HandleContext is a complete dispatch of its own: Reset() (recorded errors are dropped,
				// the response writer is kept), the target's chain, OnError if that chain recorded an
				// error, and the header commit at the end of that dispatch
				ops = append(ops, respOp{Kind: "redispatch-begin"})
				ops = append(ops, p.Redispatch...)
				ops = append(ops, respOp{Kind: "redispatch-end"})
				continue
			}
			ops = append(ops, o)
		}
	}
	for i := len(p.Post) - 1; i >= 0; i-- {
		ops = append(ops, p.Post[i]...)
	}
	return ops
}

func (p c08Prog) nontrivial() bool {
	committed := false
	for _, o := range p.order() {
		switch o.Kind {
		case "flush":
			return true
		case "write", "writestring":
			if o.Data == "" {
				return true
			}
			committed = true
		case "status", "nocontent":
			if committed {
				return true
			}
		case "error", "redirect", "text", "json", "stream":
			if committed {
				return true
			}
			committed = true
		}
	}
	return p.FailAt > 0
}

func runC08(e *Env) {
	e.Rule = "programs of response operations {SetStatus(code) for code in -1,0,100,101,200,201,204,301,404,500,599; SetHeader; Resp.Write incl. empty; WriteString; Flush; http.Error; http.Redirect; Text; JSON; NoContent; AddError; io.Copy from a reader without WriteTo; a re-dispatch of the context through HandleContext in single-handler chains} distributed over the before-Next and after-Next phases of a 1..4 handler chain (global middleware, route middleware, main), GET/POST, with or without an OnError hook (doing nothing / status / status+body), on a recording writer (with or without io.ReaderFrom, like net/http's) with a fault plan (n-th write accepts k bytes and errors); plus ALL sequences of <= 4 operations over a 9-operation alphabet in a single handler under 4 fault plans; plus chains that do nothing. Observed: the ordered call log WriteHeader/Write/Flush at the underlying writer, body bytes, Context.Length() after dispatch. Oracle: reference state machine unset -> recorded -> committed. Non-trivial: contains a flush, a zero-length write, a failing write, or a status change after the commit; distinct by program. The operation alphabet also has the Stream helper (status, Content-Type, bytes of a reader that may be empty). A sixth of the routed programs run behind pkg/handlers.Timeout with a request whose deadline has already passed (the middleware records 504 when the chain comes back to it). A quarter of the programs run right after a request of the same router (same context pool) that answered through a writer of its own which it left in c.Resp."
	e.Assumptions = []string{
		"helpers are expanded into the primitives their documentation promises (http.Error = status + message line, Text = status + bytes, JSON = status + encoded value + newline, NoContent = status 204)",
		"writes that may fail go through Resp.Write (WriteString/Text panic on a write error by contract and are only used without a fault plan)",
	}
	e.Exhaustive = true

	// exhaustive small scope
	alpha := []respOp{
		{Kind: "status", Code: 201}, {Kind: "status", Code: 404}, {Kind: "status", Code: 0}, {Kind: "status", Code: -1},
		{Kind: "write", Data: "ab"}, {Kind: "write", Data: ""}, {Kind: "flush"},
		{Kind: "error", Code: 500, Data: "boom"}, {Kind: "nocontent"},
	}
	faults := [][2]int{{0, 0}, {1, 0}, {1, 1}, {2, 0}}
	A := int64(len(alpha))
	L := 4
	total := int64(1)
	for i := 0; i < L; i++ {
		total *= A
	}
	e.Note("exhaustive_scope", fmt.Sprintf("all %d^%d operation sequences (shorter ones are prefixes with trailing repeats) x %d writer fault plans", A, L, len(faults)))
	e.RunCases("exhaustive", total*int64(len(faults)), 0, func(t *T) {
		f := faults[t.Idx%int64(len(faults))]
		x := t.Idx / int64(len(faults))
		// length 1..4: the leading digits select how many ops are used
		var ops []respOp
		for i := 0; i < L; i++ {
			ops = append(ops, alpha[x%A])
			x /= A
		}
		// use a varying prefix length so that lengths 1..3 are covered as well
		n := 1 + int(t.Idx%int64(L))
		if t.Idx%5 == 0 {
			n = L
		}
		p := c08Prog{Pre: [][]respOp{ops[:n]}, Post: [][]respOp{nil}, FailAt: f[0], Short: f[1], Method: "GET"}
		c08Check(t, p)
	})

	e.RunCases("random", e.N(30000, 12000000), 0, func(t *T) {
		r := t.R
		codes := []int{-1, 0, 100, 101, 200, 201, 204, 301, 404, 500, 599, 499, 520}
		nh := 1 + r.IntN(4)
		p := c08Prog{Method: pick(r, []string{"GET", "GET", "POST"})}
		p.NGlobal = r.IntN(nh)
		fault := chance(r, 1, 4)
		if fault {
			p.FailAt = 1 + r.IntN(3)
			p.Short = r.IntN(3)
		}
		genOps := func(max int) []respOp {
			n := r.IntN(max + 1)
			var ops []respOp
			for i := 0; i < n; i++ {
				var o respOp
				switch x := r.IntN(20); {
				case x < 6:
					o = respOp{Kind: "status", Code: pick(r, codes)}
				case x < 8:
					o = respOp{Kind: "header", Data: pick(r, []string{"a", "b"})}
				case x < 12:
					o = respOp{Kind: "write", Data: pick(r, []string{"", "x", "hello", "ab"})}
				case x < 14:
					o = respOp{Kind: "flush"}
					if chance(r, 1, 3) {
						o.Data = "rc"
					}
				case x < 15:
					o = respOp{Kind: "error", Code: pick(r, []int{400, 404, 500}), Data: "err"}
				case x < 16:
					o = respOp{Kind: "redirect", Code: pick(r, []int{301, 302, 307})}
				case x < 17:
					o = respOp{Kind: pick(r, []string{"nocontent", "adderror", "copy", "stream"}), Data: pick(r, []string{"", "c", "copied"})}
					if o.Kind == "stream" {
						o.Code = pick(r, codes)
						t.Count("programs.stream_helper", 1)
					} else if o.Kind != "copy" {
						o.Data = ""
					}
				case x < 18 && chance(r, 1, 3) && !fault:
					o = respOp{Kind: "nested", Code: pick(r, []int{201, 202, 404}), Data: pick(r, []string{"", "in"})}
					t.Count("programs.nested_rux_router", 1)
				case x < 18:
					o = respOp{Kind: "json", Code: pick(r, codes), Data: pick(r, []string{"v", "<a>"})}
				case x < 19 && !fault:
					o = respOp{Kind: "text", Code: pick(r, codes), Data: pick(r, []string{"", "t"})}
				case !fault:
					o = respOp{Kind: "writestring", Data: pick(r, []string{"", "ws"})}
				default:
					o = respOp{Kind: "write", Data: "y"}
				}
				ops = append(ops, o)
			}
			return ops
		}
		for i := 0; i < nh; i++ {
			p.Pre = append(p.Pre, genOps(2))
			p.Post = append(p.Post, genOps(1))
		}
		p.ReaderFrom = chance(r, 1, 3)
		if !p.ReaderFrom && chance(r, 1, 5) {
			p.NoFlusher = true
		}
		if chance(r, 1, 5) {
			// the main (last) handler answers through AbortWithStatus(code): a status setting like any other
			i := r.IntN(len(p.Pre[nh-1]) + 1)
			ab := respOp{Kind: "abortstatus", Code: pick(r, []int{401, 403, 404, 500})}
			p.Pre[nh-1] = append(p.Pre[nh-1][:i:i], append([]respOp{ab}, p.Pre[nh-1][i:]...)...)
			t.Count("programs.abort_with_status_in_main", 1)
		}
		if nh == 1 && !fault && chance(r, 1, 4) {
			// a single-handler chain that re-dispatches the context to another route
			p.NGlobal = 0
			p.Redispatch = append([]respOp{}, genOps(2)...)
			if p.Redispatch == nil {
				p.Redispatch = []respOp{}
			}
			i := r.IntN(len(p.Pre[0]) + 1)
			p.Pre[0] = append(p.Pre[0][:i:i], append([]respOp{{Kind: "redispatch"}}, p.Pre[0][i:]...)...)
		}
		if nh == 1 && p.Redispatch == nil && chance(r, 1, 4) {
			p.Direct = true
		} else if chance(r, 1, 3) {
			p.HasHook = true
			switch r.IntN(3) {
			case 1:
				p.OnError = []respOp{{Kind: "status", Code: 500}}
			case 2:
				p.OnError = []respOp{{Kind: "status", Code: 502}, {Kind: "write", Data: "E"}}
			}
			// make sure some handler records an error
			if chance(r, 2, 3) {
				i := r.IntN(nh)
				p.Pre[i] = append(p.Pre[i], respOp{Kind: "adderror"})
			}
		}
		if !p.Direct && p.Redispatch == nil && chance(r, 1, 6) {
			p.ExpiredBehindTimeout = true
			t.Count("programs.expired_deadline_behind_timeout_middleware", 1)
		}
		c08Check(t, p)
	})
	e.Require("programs.silent", 50)
	e.Require("programs.flush_before_write", 500)
	e.Require("programs.zero_length_first_write", 500)
	e.Require("programs.failing_write", 1000)
	e.Require("programs.status_after_commit", 1000)
	e.Require("programs.onerror_hook_ran", 300)
	e.Require("programs.readerfrom_writer", 1000)
	e.Require("programs.redispatch", 200)
	e.Require("programs.nested_rux_router", 300)
}

func c08Check(t *T, p c08Prog) {
	t.Describe(p.describe)
	// feature counters from the model side
	order := p.order()
	if len(order) == 0 {
		t.Count("programs.silent", 1)
	}
	committed := false
	for _, o := range order {
		first := !committed
		switch o.Kind {
		case "flush":
			if first {
				t.Count("programs.flush_before_write", 1)
			}
			committed = true
		case "write", "writestring":
			if first && o.Data == "" {
				t.Count("programs.zero_length_first_write", 1)
			}
			committed = true
		case "status":
			if committed && o.Code > 0 {
				t.Count("programs.status_after_commit", 1)
			}
		case "error", "json":
			committed = true
		case "text":
			if o.Data != "" {
				committed = true
			}
		case "redirect":
			if p.Method == "GET" {
				committed = true
			}
		}
	}
	if p.FailAt > 0 {
		t.Count("programs.failing_write", 1)
	}
	if p.nontrivial() {
		t.NonTrivial(fmt.Sprint(p.describe()))
	}

	// build the router
	r := rux.New()
	leave := func() {}
	if t.R.IntN(4) == 0 {
		// the request before this one (same router, same context pool) left its own writer in c.Resp
		leave = WriterLeaver(r)
		t.Count("programs.after_a_request_that_left_its_writer_in_the_context", 1)
	}
	if p.HasHook {
		r.OnError = func(c *rux.Context) {
			for _, o := range p.OnError {
				o.apply(c)
			}
		}
	}
	n := len(p.Pre)
	mk := func(i int) rux.HandlerFunc {
		return func(c *rux.Context) {
			rec := recOf(c)
			rec.CtxPtr = c
			for _, o := range p.Pre[i] {
				o.apply(c)
			}
			c.Next()
			for _, o := range p.Post[i] {
				o.apply(c)
			}
		}
	}
	if p.ExpiredBehindTimeout {
		r.Use(handlers.Timeout(time.Hour))
	}
	for i := 0; i < p.NGlobal && i < n-1; i++ {
		r.Use(mk(i))
	}
	var routeMW []rux.HandlerFunc
	g := p.NGlobal
	if g > n-1 {
		g = n - 1
	}
	for i := g; i < n-1; i++ {
		routeMW = append(routeMW, mk(i))
	}
	r.Add("/x", mk(n-1), "GET", "POST").Use(routeMW...)
	if p.Redispatch != nil {
		t.Count("programs.redispatch", 1)
		r.Add("/y", func(c *rux.Context) {
			for _, o := range p.Redispatch {
				o.apply(c)
			}
		}, "GET", "POST")
	}
	t.AutoSample()

	rec := NewRec()
	rec.FailAt, rec.Short = p.FailAt, p.Short
	var w http.ResponseWriter = rec
	if p.ReaderFrom {
		t.Count("programs.readerfrom_writer", 1)
		w = RecRF{rec}
	}
	if p.NoFlusher {
		t.Count("programs.no_flusher_writer", 1)
		w = RecNF{rec}
	}
	var entry http.Handler = r
	if p.Direct {
		t.Count("programs.handlerfunc_as_http_handler", 1)
		entry = mk(0) // rux.HandlerFunc implements http.Handler
	}
	creq := NewReq(p.Method, "/x")
	if p.ExpiredBehindTimeout {
		dctx, cancel := context.WithDeadline(creq.Context(), time.Unix(1, 0))
		defer cancel()
		creq = creq.WithContext(dctx)
	}
	leave()
	if pv, panicked := catch(func() { entry.ServeHTTP(w, creq) }); panicked {
		t.Fail("servehttp-panic", "program %v panicked: %v", p.describe(), pv)
		return
	}

	if !p.NoFlusher && hasEvent(rec.Events, "flush-panicked") {
		t.Fail("flush-panics", "program %v: Flush panicked although the underlying writer is an http.Flusher", p.describe())
		return
	}
	m := &respModel{failAt: p.FailAt, short: p.Short, method: p.Method, noFlusher: p.NoFlusher}
	for _, o := range order {
		switch o.Kind {
		case "redispatch-begin":
			m.errRec = false
		case "redispatch-end":
			if p.HasHook && m.errRec {
				t.Count("programs.onerror_hook_ran", 1)
				for _, h := range p.OnError {
					m.step(h)
				}
			}
			// the errors stay in the context: the outer dispatch's tail sees them too and runs OnError again
			m.commit()
		default:
			m.step(o)
		}
	}
	if p.ExpiredBehindTimeout {
		m.step(respOp{Kind: "status", Code: 504})
	}
	if p.HasHook && m.errRec {
		// the OnError hook runs after the chain when an error was recorded
		t.Count("programs.onerror_hook_ran", 1)
		for _, o := range p.OnError {
			m.step(o)
		}
	}
	m.commit() // end of chain

	t.Tracef("writer saw [%s] body %q; model expects [%s]", rec.CallLog(), rec.Body.String(), callLog(m.log))
	if !callsEqual(m.log, rec.Calls) {
		sig := "call-log-differs"
		switch {
		case rec.NumWH() == 0:
			sig = "header-never-committed"
		case rec.NumWH() > 1:
			sig = "header-committed-twice"
		case rec.Calls[0].Kind != "WH":
			sig = "body-or-flush-before-header"
		case rec.Status() != m.log[0].Code:
			sig = "wrong-status-committed"
		}
		t.Fail(sig, "program %v\n expected at the writer: %s\n observed at the writer: %s", p.describe(), callLog(m.log), rec.CallLog())
		return
	}
	if rec.Body.String() != string(m.body) {
		t.Fail("body-differs", "program %v: expected body %q, observed %q", p.describe(), m.body, rec.Body.String())
		return
	}
	if rec.CtxPtr != nil {
		if ln := rec.CtxPtr.Length(); ln != m.length {
			t.Fail("length-differs", "program %v: Length() after dispatch is %d, the writer accepted %d bytes", p.describe(), ln, m.length)
			return
		}
	}
	if want := m.headerX; rec.HeaderAtCommit.Get("X-K") != want {
		t.Fail("header-at-commit", "program %v: header X-K at commit time is %q, expected %q (the last value set before the commit)", p.describe(), rec.HeaderAtCommit.Get("X-K"), want)
	}
}

var _ = rand.IntN
