package mon

import (
	"encoding/json"
	"fmt"
	"hash/fnv"
	"math/rand/v2"
	"os"
	"path/filepath"
	"runtime"
	"sort"
	"strconv"
	"strings"
	"sync"
	"sync/atomic"
	"time"
)

// Exit codes of the child process. 2 is left to the Go runtime (fatal error /
// uncaught panic), so that the parent can tell a crash from a verdict.
const (
	ExitHeld         = 0
	ExitViolation    = 1
	ExitInconclusive = 3
)

// Env is the per-run state of one monitor (one property, one tier, one seed).
type Env struct {
	ID       string
	Tier     string // quick | thorough
	Seed     int64
	VerifDir string // where KNOWN_FINDINGS.txt lives
	OutDir   string // where evidence/, replays/ and work/ are written (VERIF_OUT, default VerifDir)
	WorkDir  string
	Level    string

	Rule        string
	Assumptions []string
	Exhaustive  bool

	replay *ReplayFile // non-nil: re-execute exactly this case

	start time.Time

	mu         sync.Mutex
	evals      int64
	distinct   map[uint64]struct{}
	counters   map[string]int64
	samples    []any
	parts      map[string]int64
	viols      []*violation
	violSigs   map[string]int
	known      []knownFinding
	knownSeen  map[string]int64
	inconcl    []string
	nReplayOut int
	notes      map[string]any
}

type violation struct {
	Sig    string
	Msg    string
	Replay string
}

type knownFinding struct {
	Property string
	Key      string
	Text     string
}

// ReplayFile is what a VIOLATION line points at.
type ReplayFile struct {
	Property string `json:"property"`
	Tier     string `json:"tier"`
	Seed     int64  `json:"seed"`
	Part     string `json:"part"`
	Index    int64  `json:"index"`
	Sig      string `json:"signature"`
	Message  string `json:"message"`
	Case     any    `json:"case,omitempty"`
	Crash    string `json:"crash,omitempty"`
}

// T is the per-case handle passed to a case function.
type T struct {
	E    *Env
	Part string
	Idx  int64
	R    *rand.Rand
	w    *worker
	desc func() any
	fail int

	wantSample bool
	trace      []string
}

type worker struct {
	id       int
	evals    int64
	counters map[string]int64
	distinct map[uint64]struct{}
	journal  *os.File
}

func NewEnv(id, tier string, seed int64, verifDir, outDir string) *Env {
	e := &Env{
		ID: id, Tier: tier, Seed: seed, VerifDir: verifDir, OutDir: outDir,
		WorkDir:   filepath.Join(outDir, "work"),
		Level:     "exploration",
		start:     time.Now(),
		distinct:  map[uint64]struct{}{},
		counters:  map[string]int64{},
		parts:     map[string]int64{},
		violSigs:  map[string]int{},
		knownSeen: map[string]int64{},
		notes:     map[string]any{},
	}
	_ = os.MkdirAll(e.WorkDir, 0o755)
	e.loadKnown()
	return e
}

func (e *Env) Thorough() bool { return e.Tier == "thorough" }

// N picks the quick or thorough bound.
func (e *Env) N(quick, thorough int64) int64 {
	if e.Thorough() {
		return thorough
	}
	return quick
}

func (e *Env) SetReplay(path string) error {
	b, err := os.ReadFile(path)
	if err != nil {
		return err
	}
	var rf ReplayFile
	if err := json.Unmarshal(b, &rf); err != nil {
		return err
	}
	if rf.Property != e.ID {
		return fmt.Errorf("replay file is for %s, not %s", rf.Property, e.ID)
	}
	e.replay = &rf
	e.Seed = rf.Seed
	e.Tier = rf.Tier
	return nil
}

func (e *Env) loadKnown() {
	b, err := os.ReadFile(filepath.Join(e.VerifDir, "KNOWN_FINDINGS.txt"))
	if err != nil {
		return
	}
	for _, ln := range strings.Split(string(b), "\n") {
		ln = strings.TrimSpace(ln)
		if !strings.HasPrefix(ln, "finding:") {
			continue // "fixed:" lines and comments suppress nothing
		}
		f := strings.Fields(strings.TrimPrefix(ln, "finding:"))
		var kf knownFinding
		var rest []string
		for _, w := range f {
			switch {
			case strings.HasPrefix(w, "property=") && kf.Property == "":
				kf.Property = strings.TrimPrefix(w, "property=")
			case strings.HasPrefix(w, "key=") && kf.Key == "":
				kf.Key = strings.TrimPrefix(w, "key=")
			default:
				rest = append(rest, w)
			}
		}
		kf.Text = strings.Join(rest, " ")
		if kf.Property == e.ID && kf.Key != "" {
			e.known = append(e.known, kf)
		}
	}
}

func (e *Env) isKnown(sig string) bool {
	for _, k := range e.known {
		if k.Key == sig {
			return true
		}
	}
	return false
}

func caseSeed(seed int64, part string, idx int64) (uint64, uint64) {
	h := fnv.New64a()
	h.Write([]byte(part))
	return uint64(seed)*0x9E3779B97F4A7C15 ^ h.Sum64(), uint64(idx)*0xD1B54A32D192ED03 + 0x8CB92BA72F3D8DD7
}

// Workers returns the number of parallel workers.
func Workers() int {
	n := runtime.GOMAXPROCS(0)
	if v := os.Getenv("VERIF_WORKERS"); v != "" {
		if k, err := strconv.Atoi(v); err == nil && k > 0 {
			n = k
		}
	}
	return n
}

// RunCases executes f for the case indices 0..n-1 of the named part, in
// parallel. Every case has its own PRNG derived from (seed, part, index), so a
// case is reproduced from those three values alone. parallel=1 forces a single
// worker (monitors that touch package globals).
func (e *Env) RunCases(part string, n int64, parallel int, f func(t *T)) {
	if e.replay != nil {
		if e.replay.Part != part {
			return
		}
		w := e.newWorker(0)
		e.runOne(w, part, e.replay.Index, f)
		e.merge(w)
		e.parts[part]++
		return
	}
	if parallel <= 0 {
		parallel = Workers()
	}
	if int64(parallel) > n {
		parallel = int(n)
	}
	if parallel < 1 {
		parallel = 1
	}
	var next int64
	var wg sync.WaitGroup
	ws := make([]*worker, parallel)
	for i := range ws {
		ws[i] = e.newWorker(i)
		wg.Add(1)
		go func(w *worker) {
			defer wg.Done()
			for {
				idx := atomic.AddInt64(&next, 1) - 1
				if idx >= n {
					return
				}
				e.runOne(w, part, idx, f)
			}
		}(ws[i])
	}
	wg.Wait()
	for _, w := range ws {
		e.merge(w)
	}
	e.mu.Lock()
	e.parts[part] += n
	e.mu.Unlock()
}

func (e *Env) newWorker(i int) *worker {
	w := &worker{id: i, counters: map[string]int64{}, distinct: map[uint64]struct{}{}}
	jf, err := os.OpenFile(filepath.Join(e.WorkDir, fmt.Sprintf("%s.journal.%d", e.ID, i)), os.O_CREATE|os.O_WRONLY|os.O_TRUNC, 0o644)
	if err == nil {
		w.journal = jf
	}
	return w
}

func (e *Env) merge(w *worker) {
	e.mu.Lock()
	defer e.mu.Unlock()
	e.evals += w.evals
	for k, v := range w.counters {
		e.counters[k] += v
	}
	for k := range w.distinct {
		e.distinct[k] = struct{}{}
	}
	if w.journal != nil {
		// a finished worker leaves an empty journal: nothing in flight
		_ = w.journal.Truncate(0)
		w.journal.Close()
	}
}

func (e *Env) runOne(w *worker, part string, idx int64, f func(t *T)) {
	s1, s2 := caseSeed(e.Seed, part, idx)
	t := &T{E: e, Part: part, Idx: idx, R: rand.New(rand.NewPCG(s1, s2)), w: w}
	if w.journal != nil {
		line := fmt.Sprintf("in-flight property=%s seed=%d tier=%s part=%s index=%012d\n", e.ID, e.Seed, e.Tier, part, idx)
		_, _ = w.journal.WriteAt([]byte(line), 0)
	}
	w.evals++
	defer func() {
		if r := recover(); r != nil {
			// A panic that reaches this point was not expected by the monitor
			// (expected ones are recovered where they are observed).
			buf := make([]byte, 16<<10)
			buf = buf[:runtime.Stack(buf, false)]
			t.Fail("unexpected-panic", "unexpected panic in case: %v\n%s", r, buf)
		}
	}()
	f(t)
	if t.wantSample && t.desc != nil {
		// sampled after the case ran, so that histories / probes and what was observed are in it
		t.Sample(map[string]any{"part": t.Part, "index": t.Idx, "case": t.desc(), "observed": t.trace})
	}
}

// Tracef records what the monitor observed for this case (kept only for the
// few cases that become evidence samples).
func (t *T) Tracef(format string, args ...any) {
	if t.wantSample && len(t.trace) < 14 {
		s := fmt.Sprintf(format, args...)
		if len(s) > 400 {
			s = s[:400] + "..."
		}
		t.trace = append(t.trace, s)
	}
}

// Describe registers the function that expands this case for a replay file or a sample.
func (t *T) Describe(fn func() any) { t.desc = fn }

func (t *T) Count(name string, n int64) { t.w.counters[name] += n }

// NonTrivial records a distinct non-trivial case, identified by key.
func (t *T) NonTrivial(key string) {
	h := fnv.New64a()
	h.Write([]byte(t.Part))
	h.Write([]byte{0})
	h.Write([]byte(key))
	if len(t.w.distinct) >= maxDistinctPerWorker {
		// memory guard for very long thorough runs: stop recording, i.e. count conservatively
		t.w.counters["distinct_nontrivial.capped"] = 1
		return
	}
	t.w.distinct[h.Sum64()] = struct{}{}
}

// maxDistinctPerWorker bounds the memory of the distinct-case bookkeeping (about 50 bytes per entry).
const maxDistinctPerWorker = 2000000

// Sample keeps a few expanded cases for the evidence file.
func (t *T) Sample(v any) {
	t.E.mu.Lock()
	defer t.E.mu.Unlock()
	if len(t.E.samples) < 8 {
		t.E.samples = append(t.E.samples, v)
	}
}

// AutoSample marks the first cases of each part as evidence samples; the sample
// (expanded case + observations recorded with Tracef) is stored when the case ends.
func (t *T) AutoSample() {
	if t.Idx < 2 {
		t.wantSample = true
	}
}

// Fail reports a violation with a machine-computed signature. If the signature is
// listed in KNOWN_FINDINGS.txt for this property it is counted as a known finding.
func (t *T) Fail(sig string, format string, args ...any) {
	t.fail++
	msg := fmt.Sprintf(format, args...)
	e := t.E
	e.mu.Lock()
	defer e.mu.Unlock()
	if e.isKnown(sig) {
		e.knownSeen[sig]++
		return
	}
	e.violSigs[sig]++
	if e.violSigs[sig] > 3 || e.nReplayOut >= 25 {
		// keep counting, do not flood the replay directory
		e.viols = append(e.viols, &violation{Sig: sig, Msg: msg})
		return
	}
	e.nReplayOut++
	rf := ReplayFile{Property: e.ID, Tier: e.Tier, Seed: e.Seed, Part: t.Part, Index: t.Idx, Sig: sig, Message: msg}
	if t.desc != nil {
		func() {
			defer func() { _ = recover() }()
			rf.Case = t.desc()
		}()
	}
	dir := filepath.Join(e.OutDir, "replays")
	_ = os.MkdirAll(dir, 0o755)
	name := filepath.Join(dir, fmt.Sprintf("%s-%d-%s-%d.json", e.ID, e.Seed, sanitize(t.Part), t.Idx))
	b, err := json.MarshalIndent(rf, "", " ")
	if err != nil {
		rf.Case = fmt.Sprintf("%+v", rf.Case)
		b, _ = json.MarshalIndent(rf, "", " ")
	}
	_ = os.WriteFile(name, b, 0o644)
	e.viols = append(e.viols, &violation{Sig: sig, Msg: msg, Replay: name})
}

func (t *T) Failed() bool { return t.fail > 0 }

func sanitize(s string) string {
	var b strings.Builder
	for _, r := range s {
		if r >= 'a' && r <= 'z' || r >= 'A' && r <= 'Z' || r >= '0' && r <= '9' || r == '-' || r == '_' {
			b.WriteRune(r)
		} else {
			b.WriteByte('_')
		}
	}
	return b.String()
}

// Inconclusive marks the run as not deciding the property.
func (e *Env) Inconclusive(format string, args ...any) {
	e.mu.Lock()
	defer e.mu.Unlock()
	e.inconcl = append(e.inconcl, fmt.Sprintf(format, args...))
}

// Require makes the run inconclusive if a feature counter is below min.
func (e *Env) Require(counter string, min int64) {
	if e.replay != nil {
		return
	}
	e.mu.Lock()
	v := e.counters[counter]
	e.mu.Unlock()
	if v < min {
		e.Inconclusive("feature counter %q = %d, need >= %d: the workload did not exercise what the property is about", counter, v, min)
	}
}

func (e *Env) Counter(name string) int64 {
	e.mu.Lock()
	defer e.mu.Unlock()
	return e.counters[name]
}

func (e *Env) AddCounter(name string, n int64) {
	e.mu.Lock()
	defer e.mu.Unlock()
	e.counters[name] += n
}

func (e *Env) Note(key string, v any) {
	e.mu.Lock()
	defer e.mu.Unlock()
	e.notes[key] = v
}

// GlobalFail reports a violation that is not tied to one generated case (e.g. a race report).
func (e *Env) GlobalFail(sig, part string, idx int64, caseDesc any, format string, args ...any) {
	t := &T{E: e, Part: part, Idx: idx, desc: func() any { return caseDesc }}
	t.Fail(sig, format, args...)
}

// Finish writes the evidence file, prints the verdict lines and returns the exit code.
func (e *Env) Finish() int {
	e.mu.Lock()
	defer e.mu.Unlock()

	for _, k := range e.known {
		if n := e.knownSeen[k.Key]; n > 0 {
			fmt.Printf("KNOWN-FINDING: property=%s %s (key=%s, observed %d times in this run)\n", e.ID, k.Text, k.Key, n)
		}
	}

	printed := map[string]bool{}
	for _, v := range e.viols {
		if v.Replay == "" || printed[v.Sig] {
			continue
		}
		if len(printed) >= 8 {
			fmt.Printf("  (further violation signatures are listed in the evidence file and under replays/)\n")
			break
		}
		printed[v.Sig] = true
		first := v.Msg
		if i := strings.IndexByte(first, '\n'); i >= 0 {
			first = first[:i]
		}
		fmt.Printf("VIOLATION property=%s replay=%s\n", e.ID, v.Replay)
		fmt.Printf("  signature=%s count=%d: %s\n", v.Sig, e.violSigs[v.Sig], first)
	}

	if e.replay != nil {
		// replay mode: no evidence rewrite
		if len(e.viols) > 0 {
			return ExitViolation
		}
		fmt.Printf("REPLAY property=%s part=%s index=%d: no violation reproduced\n", e.ID, e.replay.Part, e.replay.Index)
		return ExitHeld
	}

	keys := make([]string, 0, len(e.counters))
	for k := range e.counters {
		keys = append(keys, k)
	}
	sort.Strings(keys)
	obs := map[string]int64{}
	for _, k := range keys {
		obs[k] = e.counters[k]
	}
	knownSeen := map[string]int64{}
	for k, v := range e.knownSeen {
		knownSeen[k] = v
	}
	cov := map[string]any{
		"evaluations":         e.evals,
		"distinct_nontrivial": len(e.distinct),
		"rule":                e.Rule,
		"samples":             e.samples,
		"observed":            obs,
		"parts":               e.parts,
	}
	if e.Exhaustive {
		cov["exhaustive"] = true
	}
	for k, v := range e.notes {
		cov[k] = v
	}
	verdict := "held on what was observed"
	if len(e.viols) > 0 {
		verdict = "violated"
	} else if len(e.inconcl) > 0 {
		verdict = "inconclusive"
	}
	ev := map[string]any{
		"property_id":          e.ID,
		"tier":                 e.Tier,
		"seed":                 e.Seed,
		"level":                e.Level,
		"coverage":             cov,
		"assumptions":          e.Assumptions,
		"wall_s":               time.Since(e.start).Seconds(),
		"violations":           len(e.viols),
		"verdict":              verdict,
		"inconclusive_reasons": e.inconcl,
		"known_findings_seen":  knownSeen,
		"violation_signatures": e.violSigs,
	}
	if e.samples == nil {
		cov["samples"] = []any{}
	}
	b, err := json.MarshalIndent(ev, "", " ")
	if err != nil {
		fmt.Printf("BROKEN: cannot encode evidence: %v\n", err)
		return ExitInconclusive
	}
	dir := filepath.Join(e.OutDir, "evidence")
	_ = os.MkdirAll(dir, 0o755)
	if err := os.WriteFile(filepath.Join(dir, e.ID+".json"), append(b, '\n'), 0o644); err != nil {
		fmt.Printf("BROKEN: cannot write evidence: %v\n", err)
		return ExitInconclusive
	}

	fmt.Printf("SUMMARY property=%s tier=%s seed=%d evaluations=%d distinct_nontrivial=%d violations=%d wall=%.1fs\n",
		e.ID, e.Tier, e.Seed, e.evals, len(e.distinct), len(e.viols), time.Since(e.start).Seconds())
	for _, k := range keys {
		fmt.Printf("  observed %-40s %d\n", k, e.counters[k])
	}
	if len(e.viols) > 0 {
		return ExitViolation
	}
	if len(e.inconcl) > 0 {
		for _, s := range e.inconcl {
			fmt.Printf("INCONCLUSIVE property=%s %s\n", e.ID, s)
		}
		return ExitInconclusive
	}
	return ExitHeld
}

// ----- small helpers shared by the monitors -----

func pick[X any](r *rand.Rand, xs []X) X { return xs[r.IntN(len(xs))] }

func chance(r *rand.Rand, num, den int) bool { return r.IntN(den) < num }

// catch runs f and returns the recovered panic value (nil if none) and whether it panicked.
func catch(f func()) (val any, panicked bool) {
	defer func() {
		if r := recover(); r != nil {
			val, panicked = r, true
		} else if panicked {
			// panic(nil) on old runtimes
			val = nil
		}
	}()
	panicked = true
	f()
	panicked = false
	return
}

func jsonStr(v any) string {
	b, err := json.Marshal(v)
	if err != nil {
		return fmt.Sprintf("%+v", v)
	}
	return string(b)
}
