package mon

import (
	"fmt"
	"math/rand/v2"
	"net/url"
	"runtime"
	"strings"
	"sync"
	"sync/atomic"
	"time"

	"github.com/anishathalye/porcupine"
	"github.com/gookit/rux"
)

func init() { Monitors["C14"] = runC14 }

// ---------------------------------------------------------------------------
// reference LRU (list based, most recent first)
// ---------------------------------------------------------------------------

type lruModel struct {
	cap  int
	keys []string
	vals map[string]*rux.Route
}

func newLRU(cap int) *lruModel { return &lruModel{cap: cap, vals: map[string]*rux.Route{}} }

func (m *lruModel) idx(k string) int {
	for i, x := range m.keys {
		if x == k {
			return i
		}
	}
	return -1
}

func (m *lruModel) touch(i int) {
	k := m.keys[i]
	copy(m.keys[1:i+1], m.keys[:i])
	m.keys[0] = k
}

func (m *lruModel) Set(k string, v *rux.Route) (evicted string) {
	if i := m.idx(k); i >= 0 {
		m.touch(i)
		m.vals[k] = v
		return ""
	}
	m.keys = append([]string{k}, m.keys...)
	m.vals[k] = v
	if len(m.keys) > m.cap {
		last := m.keys[len(m.keys)-1]
		m.keys = m.keys[:len(m.keys)-1]
		delete(m.vals, last)
		return last
	}
	return ""
}

func (m *lruModel) Get(k string) (*rux.Route, bool) {
	if i := m.idx(k); i >= 0 {
		m.touch(i)
		return m.vals[k], true
	}
	return nil, false
}

func (m *lruModel) Delete(k string) bool {
	if i := m.idx(k); i >= 0 {
		m.keys = append(m.keys[:i], m.keys[i+1:]...)
		delete(m.vals, k)
		return true
	}
	return false
}

// hasIsNeutral reports whether a Has(k) cannot change anything the statement
// talks about: key absent, or already the most recent one.
func (m *lruModel) hasIsNeutral(k string) bool {
	i := m.idx(k)
	return i <= 0
}

// ---------------------------------------------------------------------------

type cacheOp struct {
	Kind byte // S G H D L
	Key  int
}

func (o cacheOp) String() string {
	switch o.Kind {
	case 'L':
		return "Len"
	case 'S':
		return fmt.Sprintf("Set(k%d)", o.Key)
	case 'G':
		return fmt.Sprintf("Get(k%d)", o.Key)
	case 'H':
		return fmt.Sprintf("Has(k%d)", o.Key)
	}
	return fmt.Sprintf("Delete(k%d)", o.Key)
}

func opsString(ops []cacheOp) string {
	ss := make([]string, len(ops))
	for i, o := range ops {
		ss[i] = o.String()
	}
	return strings.Join(ss, " ")
}

var noopHandler = func(c *rux.Context) {}

// runCacheSeq runs one operation sequence in lock-step with the model.
// It returns a non-empty signature + message at the first disagreement.
func runCacheSeq(capacity int, ops []cacheOp, t *T) (sig, msg string) {
	c := rux.NewCachedRoutes(capacity)
	m := newLRU(capacity)
	for step, o := range ops {
		k := fmt.Sprintf("k%d", o.Key)
		where := func() string {
			return fmt.Sprintf("capacity %d, after %s (step %d)", capacity, opsString(ops[:step+1]), step+1)
		}
		switch o.Kind {
		case 'S':
			v := rux.NewRoute("/v", noopHandler)
			wasFull := len(m.keys) >= capacity && m.idx(k) < 0
			ev := m.Set(k, v)
			if ev != "" && wasFull {
				t.Count("lru.evictions", 1)
			}
			if !c.Set(k, v) {
				return "set-returned-false", where() + ": Set returned false"
			}
		case 'G':
			wv, wok := m.Get(k)
			gv, gok := c.Get(k)
			if wok {
				t.Count("lru.get_hits", 1)
			}
			if gok != wok {
				return "get-presence", fmt.Sprintf("%s: Get found=%v, a bounded LRU map has found=%v", where(), gok, wok)
			}
			if gv != wv {
				return "get-stale-value", where() + ": Get returned a value other than the one most recently stored under the key"
			}
		case 'H':
			// Has is one of the reads of the statement's quantifier (Set/Get/Has/Delete/Len): a key just
			// read is the most recent one (the order check after this step sees whether it was refreshed)
			_, want := m.Get(k)
			if got := c.Has(k); got != want {
				return "has-presence", fmt.Sprintf("%s: Has=%v, expected %v", where(), got, want)
			}
		case 'D':
			want := m.Delete(k)
			if got := c.Delete(k); got != want {
				return "delete-result", fmt.Sprintf("%s: Delete=%v, expected %v", where(), got, want)
			}
		case 'L':
		}
		// after every step: size, order and structure
		if n := c.Len(); n != len(m.keys) {
			sig := "len-differs"
			if n > capacity {
				sig = "capacity-exceeded"
			}
			return sig, fmt.Sprintf("%s: Len()=%d, expected %d (keys %v)", where(), n, len(m.keys), m.keys)
		}
		got := c.VerifKeys()
		if strings.Join(got, ",") != strings.Join(m.keys, ",") {
			sig := "recency-order"
			if len(got) != len(m.keys) || !sameSet(got, m.keys) {
				sig = "wrong-key-set"
			}
			return sig, fmt.Sprintf("%s: keys most-recent-first are %v, a bounded LRU map holds %v", where(), got, m.keys)
		}
		for _, key := range m.keys {
			if v, ok := c.VerifPeek(key); !ok || v != m.vals[key] {
				return "stored-value", fmt.Sprintf("%s: value under %s is not the one most recently stored", where(), key)
			}
		}
		if err := c.VerifCheck(); err != nil {
			return "structure-invariant", fmt.Sprintf("%s: %v", where(), err)
		}
	}
	return "", ""
}

func sameSet(a, b []string) bool {
	if len(a) != len(b) {
		return false
	}
	m := map[string]int{}
	for _, x := range a {
		m[x]++
	}
	for _, x := range b {
		m[x]--
	}
	for _, v := range m {
		if v != 0 {
			return false
		}
	}
	return true
}

func runC14(e *Env) {
	e.Rule = "sequential: ALL operation sequences of a fixed length over {Set,Get,Has,Delete}x3 keys + Len, capacities 0..4, run in lock-step with a list-based reference LRU (return value, Len, key order via the verif hook, stored values, structural invariant after every step) + random longer sequences over 2..6 keys; router level: caching routers over generated tables, after every dynamic request the front key must be method+normalised path (GET key for HEAD fallback), the repeat must be served from the cache (same instance, Len unchanged), size <= capacity always (a quarter of these routers use UseEncodedPath: the key is the escaped spelling); concurrent: short histories from 4..8 goroutines checked for linearizability against the sequential LRU with porcupine. Non-trivial: a sequence with an eviction, a hit or a delete of a present key; distinct by (capacity, sequence) / (table, history)."
	e.Assumptions = []string{
		"Has counts as a read (it is one of the operations the statement quantifies over, and 'a key just read is the most recent'): it must refresh recency like Get",
		"values are distinct *Route instances, so a read identifies the write it observed",
		"the verif hooks VerifKeys/VerifPeek/VerifCheck read the cache under its own lock without touching recency",
	}
	e.Exhaustive = true

	// ---- part 1: exhaustive small scope ----
	caps := []int{0, 1, 2, 3, 4}
	type alpha struct {
		ops []cacheOp
		L   int
	}
	mk := func(withHas bool) []cacheOp {
		var a []cacheOp
		kinds := "SGD"
		if withHas {
			kinds = "SGDH"
		}
		for _, kd := range kinds {
			for k := 0; k < 3; k++ {
				a = append(a, cacheOp{byte(kd), k})
			}
		}
		return append(a, cacheOp{'L', 0})
	}
	sets := []struct {
		name string
		a    alpha
	}{
		{"exhaustive-with-has", alpha{mk(true), int(e.N(5, 6))}},
		{"exhaustive-no-has", alpha{mk(false), int(e.N(5, 7))}},
	}
	for _, s := range sets {
		A := int64(len(s.a.ops))
		L := s.a.L
		tail := 3 // the last 3 positions are enumerated inside one case
		if L < tail {
			tail = L
		}
		prefixes := int64(1)
		for i := 0; i < L-tail; i++ {
			prefixes *= A
		}
		tails := int64(1)
		for i := 0; i < tail; i++ {
			tails *= A
		}
		e.Note("exhaustive_"+s.name, fmt.Sprintf("all %d^%d sequences x %d capacities", A, L, len(caps)))
		alphabet := s.a.ops
		e.RunCases(s.name, prefixes*int64(len(caps)), 0, func(t *T) {
			capacity := caps[t.Idx%int64(len(caps))]
			pi := t.Idx / int64(len(caps))
			ops := make([]cacheOp, L)
			for i := L - tail - 1; i >= 0; i-- {
				ops[i] = alphabet[pi%A]
				pi /= A
			}
			var cur []cacheOp
			t.Describe(func() any { return map[string]any{"capacity": capacity, "ops": opsString(cur)} })
			for ti := int64(0); ti < tails; ti++ {
				x := ti
				for i := L - 1; i >= L-tail; i-- {
					ops[i] = alphabet[x%A]
					x /= A
				}
				cur = ops
				t.Count("seq.sequences", 1)
				t.Count("seq.steps", int64(L))
				before := t.w.counters["lru.evictions"] + t.w.counters["lru.get_hits"]
				if sig, msg := runCacheSeq(capacity, ops, t); sig != "" {
					t.Fail(sig, "%s", msg)
					return
				}
				if t.w.counters["lru.evictions"]+t.w.counters["lru.get_hits"] > before {
					t.NonTrivial(fmt.Sprintf("%d|%s", capacity, opsString(ops)))
				}
			}
			if t.Idx < 1 {
				t.Sample(map[string]any{"part": s.name, "capacity": capacity, "last_sequence_of_case": opsString(ops), "sequences_in_case": tails})
			}
		})
	}

	// ---- part 2: random longer sequences ----
	e.RunCases("random-seq", e.N(5000, 1000000), 0, func(t *T) {
		r := t.R
		capacity := pick(r, []int{0, 1, 1, 2, 2, 3, 4, 7})
		nk := 2 + r.IntN(5)
		n := 20 + r.IntN(41)
		ops := make([]cacheOp, n)
		for i := range ops {
			ops[i] = cacheOp{"SSSGGGDHL"[r.IntN(9)], r.IntN(nk)}
		}
		t.Describe(func() any { return map[string]any{"capacity": capacity, "ops": opsString(ops)} })
		t.AutoSample()
		t.Count("seq.sequences", 1)
		t.Count("seq.steps", int64(n))
		if sig, msg := runCacheSeq(capacity, ops, t); sig != "" {
			t.Fail(sig, "%s", msg)
			return
		}
		t.NonTrivial(fmt.Sprintf("%d|%s", capacity, opsString(ops)))
	})

	// ---- part 3: router level ----
	e.RunCases("router", e.N(600, 30000), 0, c14RouterCase)

	// ---- part 3b: router level under concurrency (capacity large enough that nothing is evicted):
	// every resolved dynamic request must leave its entry behind, whatever other requests
	// (405 probes, 404s, other dynamic requests) are in flight
	e.RunCases("router-concurrent", e.N(60, 2000), 2, c14RouterConcurrentCase)

	// ---- part 4: concurrent histories, linearizability ----
	e.RunCases("concurrent", e.N(1500, 40000), 2, c14ConcurrentCase)

	e.Require("lru.evictions", 1000)
	e.Require("lru.get_hits", 1000)
	e.Require("router.dynamic_resolved", 500)
	e.Require("router.repeat_served_from_cache", 500)
	e.Require("router.evictions_predicted", 50)
	e.Require("lin.histories_ok", 300)
	e.Require("router_concurrent.dynamic_resolved", 5000)
	e.Require("lin.overlapping_ops", 20)
}

// c14RouterCase: "after a dynamic request has been resolved with caching enabled,
// the entry for exactly that method and path is present, so an immediate repeat
// of the request is answered from the cache".
func c14RouterCase(t *T) {
	r := t.R
	tb := GenTable(r, 1+r.IntN(8), 45)
	capacity := pick(r, []int{0, 1, 2, 3, 5, 1000})
	notAllowed := chance(r, 1, 4)
	viaEnable := chance(r, 1, 4)
	encoded := chance(r, 1, 4) // UseEncodedPath: the dispatcher looks up (and caches under) the escaped spelling of the URL path
	var hist []string
	t.Describe(func() any {
		return map[string]any{"routes": tb.Describe(), "capacity": capacity, "handle_method_not_allowed": notAllowed, "UseEncodedPath(requests through ServeHTTP only)": encoded, "history": hist}
	})
	var opts []func(*rux.Router)
	if viaEnable {
		opts = append(opts, rux.EnableCaching, rux.MaxNumCaches(uint16(capacity)))
	} else {
		opts = append(opts, rux.CachingWithNum(uint16(capacity)))
	}
	if notAllowed {
		opts = append(opts, rux.HandleMethodNotAllowed)
	}
	if encoded {
		opts = append(opts, rux.UseEncodedPath)
		t.Count("router.use_encoded_path", 1)
	}
	router := BuildRouter(tb, opts...)
	cache := router.VerifCachedRoutes()
	if cache == nil {
		t.Fail("no-cache-created", "caching enabled and %d routes registered, but the router has no cache", len(tb.Routes))
		return
	}
	if cache.VerifSize() != capacity {
		t.Fail("capacity-option-ignored", "configured capacity %d, cache has capacity %d", capacity, cache.VerifSize())
		return
	}
	t.AutoSample()
	model := newLRU(capacity)
	pool := tb.ProbePaths(r, 1, 2)
	if len(pool) > 8 {
		r.Shuffle(len(pool), func(i, j int) { pool[i], pool[j] = pool[j], pool[i] })
		pool = pool[:8]
	}
	if len(pool) > 0 && chance(r, 1, 3) {
		// a very long request path (one character of a pool path repeated a few hundred times): whatever it
		// resolves to, a matched dynamic route is cached under it like under any other path
		base := pick(r, pool).Path
		var at []int
		for i := 0; i < len(base); i++ {
			if c := base[i]; c >= '0' && c <= '9' || c >= 'a' && c <= 'z' || c >= 'A' && c <= 'Z' {
				at = append(at, i)
			}
		}
		if len(at) > 0 {
			k := pick(r, at)
			long := base[:k] + strings.Repeat(string(base[k]), 260+r.IntN(200)) + base[k:]
			pool = append(pool, Probe{long, "long"}, Probe{long, "long"})
			t.Count("router.histories_with_a_long_path", 1)
		}
	}
	n := 30 + r.IntN(50)
	for i := 0; i < n; i++ {
		path := pick(r, pool).Path
		method := pick(r, []string{"GET", "GET", "GET", "POST", "HEAD", "PUT", "DELETE"})
		lookup := path
		if encoded {
			lookup = (&url.URL{Path: path}).EscapedPath()
		}
		npath, ok := RefNormalize(lookup, false)
		if !ok {
			continue
		}
		hist = append(hist, method+" "+path)
		want, _ := tb.Resolve(method, npath, false)
		keyMethod := method
		if want < 0 && method == "HEAD" {
			want, _ = tb.Resolve("GET", npath, false)
			keyMethod = "GET"
		}
		useServe := encoded || chance(r, 1, 3)
		var route *rux.Route
		if useServe {
			if _, pv, p := Serve(router, NewReq(method, path)); p {
				t.Fail("servehttp-panic", "ServeHTTP(%s %q) panicked: %v", method, path, pv)
				return
			}
		} else {
			route, _, _ = router.Match(method, path)
		}
		if err := cache.VerifCheck(); err != nil {
			t.Fail("structure-invariant", "after %s %q: %v", method, path, err)
			return
		}
		if ln := cache.Len(); ln > capacity {
			t.Fail("capacity-exceeded", "after %s %q the cache holds %d entries, capacity %d", method, path, ln, capacity)
			return
		}
		if want < 0 || tb.Routes[want].Pat.IsStatic() {
			if notAllowed && want < 0 {
				// the 405 probe may legitimately have inserted entries for other methods:
				// resynchronise the model with the observed state (bounded-size and
				// structure were checked above)
				resyncModel(model, cache)
			}
			continue
		}
		// a dynamic route resolved this request
		t.Count("router.dynamic_resolved", 1)
		key := keyMethod + npath
		if method == "HEAD" && keyMethod == "GET" {
			t.Count("router.head_fallback_resolved", 1)
		}
		if capacity == 0 {
			continue // the bound takes precedence: nothing may be stored
		}
		if _, hit := model.Get(key); hit {
			t.Count("router.hits_predicted", 1)
		} else {
			wasFull := len(model.keys) >= capacity
			model.Set(key, nil)
			if wasFull {
				t.Count("router.evictions_predicted", 1)
			}
		}
		keys := cache.VerifKeys()
		t.Tracef("%s %q resolved to %s: cache keys (most recent first) %v", method, path, rdesc(tb, want), keys)
		if len(keys) == 0 || keys[0] != key {
			sig := "resolved-entry-not-most-recent"
			if indexOf(keys, key) < 0 {
				sig = "resolved-entry-absent"
			}
			t.Fail(sig, "after %s %q resolved to dynamic route %s the cache keys (most recent first) are %v; expected %q in front", method, path, rdesc(tb, want), keys, key)
			return
		}
		if strings.Join(keys, ",") != strings.Join(model.keys, ",") {
			t.Fail("router-lru-order", "after %s %q the cache keys are %v, an LRU of capacity %d fed with this history holds %v", method, path, keys, capacity, model.keys)
			return
		}
		// immediate repeat: served from the cache
		before := cache.Len()
		cached, _ := cache.VerifPeek(key)
		r2, ps2, _ := router.Match(method, lookup) // (Match takes the lookup string itself: with UseEncodedPath that is the escaped spelling)
		if r2 == nil {
			t.Fail("repeat-lost", "repeat of %s %q found no route", method, path)
			return
		}
		model.Get(key)
		if r2 != cached {
			t.Fail("repeat-not-served-from-cache", "repeat of %s %q was not answered with the cached instance stored under %q", method, path, key)
			return
		}
		if cache.Len() != before {
			t.Fail("repeat-changed-size", "repeat of %s %q changed the cache size from %d to %d", method, path, before, cache.Len())
			return
		}
		if route != nil && r2.Name() != route.Name() {
			t.Fail("repeat-other-route", "repeat of %s %q selected %s, first lookup %s", method, path, r2.Name(), route.Name())
			return
		}
		if !sameParams(copyParams(ps2), copyParams(cached.VerifParams())) {
			t.Fail("repeat-params", "repeat of %s %q returned params {%s}, the cached entry holds {%s}", method, path, fmtParams(copyParams(ps2)), fmtParams(copyParams(cached.VerifParams())))
			return
		}
		t.Count("router.repeat_served_from_cache", 1)
	}
	t.NonTrivial(fmt.Sprint(tb.Describe(), capacity, hist))
}

type cacheHook interface {
	VerifKeys() []string
}

func resyncModel(m *lruModel, c cacheHook) {
	m.keys = append(m.keys[:0], c.VerifKeys()...)
	m.vals = map[string]*rux.Route{}
	for _, k := range m.keys {
		m.vals[k] = nil
	}
}

func indexOf(xs []string, x string) int {
	for i, y := range xs {
		if y == x {
			return i
		}
	}
	return -1
}

// ---------------------------------------------------------------------------
// concurrent histories, checked with porcupine
// ---------------------------------------------------------------------------

type linIn struct {
	Kind byte
	Key  int
	Val  int // Set: unique value id
}

type linOut struct {
	Ok  bool
	Val int // Get: value id or -1
	N   int // Len
}

// state: keys most recent first, "k:v" joined by ',' ; comparable with ==
type linState string

func linParse(s linState) (keys []int, vals []int) {
	if s == "" {
		return
	}
	for _, f := range strings.Split(string(s), ",") {
		var k, v int
		fmt.Sscanf(f, "%d:%d", &k, &v)
		keys = append(keys, k)
		vals = append(vals, v)
	}
	return
}

func linFmt(keys, vals []int) linState {
	var b strings.Builder
	for i := range keys {
		if i > 0 {
			b.WriteByte(',')
		}
		fmt.Fprintf(&b, "%d:%d", keys[i], vals[i])
	}
	return linState(b.String())
}

func linModel(capacity int) porcupine.Model {
	find := func(keys []int, k int) int {
		for i, x := range keys {
			if x == k {
				return i
			}
		}
		return -1
	}
	front := func(keys, vals []int, i int) ([]int, []int) {
		k, v := keys[i], vals[i]
		nk := append([]int{k}, append(append([]int{}, keys[:i]...), keys[i+1:]...)...)
		nv := append([]int{v}, append(append([]int{}, vals[:i]...), vals[i+1:]...)...)
		return nk, nv
	}
	nd := porcupine.NondeterministicModel{
		Init: func() []interface{} { return []interface{}{linState("")} },
		Step: func(st, in, out interface{}) []interface{} {
			s := st.(linState)
			i := in.(linIn)
			o := out.(linOut)
			keys, vals := linParse(s)
			switch i.Kind {
			case 'S':
				if !o.Ok {
					return nil
				}
				if p := find(keys, i.Key); p >= 0 {
					vals[p] = i.Val
					nk, nv := front(keys, vals, p)
					return []interface{}{linFmt(nk, nv)}
				}
				nk := append([]int{i.Key}, keys...)
				nv := append([]int{i.Val}, vals...)
				if len(nk) > capacity {
					nk, nv = nk[:len(nk)-1], nv[:len(nv)-1]
				}
				return []interface{}{linFmt(nk, nv)}
			case 'G':
				p := find(keys, i.Key)
				if p < 0 {
					if o.Ok {
						return nil
					}
					return []interface{}{s}
				}
				if !o.Ok || o.Val != vals[p] {
					return nil
				}
				nk, nv := front(keys, vals, p)
				return []interface{}{linFmt(nk, nv)}
			case 'H':
				// Has is a read: it refreshes recency like Get
				p := find(keys, i.Key)
				if (p >= 0) != o.Ok {
					return nil
				}
				if p <= 0 {
					return []interface{}{s}
				}
				nk, nv := front(keys, vals, p)
				return []interface{}{linFmt(nk, nv)}
			case 'D':
				p := find(keys, i.Key)
				if (p >= 0) != o.Ok {
					return nil
				}
				if p < 0 {
					return []interface{}{s}
				}
				nk := append(append([]int{}, keys[:p]...), keys[p+1:]...)
				nv := append(append([]int{}, vals[:p]...), vals[p+1:]...)
				return []interface{}{linFmt(nk, nv)}
			case 'L':
				if o.N != len(keys) {
					return nil
				}
				return []interface{}{s}
			}
			return nil
		},
		DescribeOperation: func(in, out interface{}) string {
			i, o := in.(linIn), out.(linOut)
			switch i.Kind {
			case 'S':
				return fmt.Sprintf("Set(k%d,v%d)", i.Key, i.Val)
			case 'G':
				return fmt.Sprintf("Get(k%d)->(v%d,%v)", i.Key, o.Val, o.Ok)
			case 'H':
				return fmt.Sprintf("Has(k%d)->%v", i.Key, o.Ok)
			case 'D':
				return fmt.Sprintf("Delete(k%d)->%v", i.Key, o.Ok)
			}
			return fmt.Sprintf("Len->%d", o.N)
		},
	}
	return nd.ToModel()
}

func c14ConcurrentCase(t *T) {
	r := t.R
	capacity := 1 + r.IntN(3)
	nkeys := 3 + r.IntN(2)
	clients := 4 + r.IntN(5)
	perClient := 2 + r.IntN(3)
	// pre-draw every client's program from the case PRNG (the interleaving is the
	// scheduler's; the programs are reproducible)
	progs := make([][]linIn, clients)
	vid := 0
	for c := range progs {
		for j := 0; j < perClient; j++ {
			in := linIn{Kind: "SSSGGGHDL"[r.IntN(9)], Key: r.IntN(nkeys)}
			if in.Kind == 'S' {
				vid++
				in.Val = vid
			}
			progs[c] = append(progs[c], in)
		}
	}
	routes := make([]*rux.Route, vid+1)
	idOf := map[*rux.Route]int{}
	for i := 1; i <= vid; i++ {
		routes[i] = rux.NewRoute("/v", noopHandler)
		idOf[routes[i]] = i
	}
	cache := rux.NewCachedRoutes(capacity)
	var clock int64
	var arrived int32
	var mu sync.Mutex
	var hist []porcupine.Operation
	var wg sync.WaitGroup
	start := make(chan struct{})
	for c := range progs {
		wg.Add(1)
		go func(c int) {
			defer wg.Done()
			<-start
			var local []porcupine.Operation
			for j, in := range progs[c] {
				// spin barrier: all clients issue their j-th operation at about the same time
				atomic.AddInt32(&arrived, 1)
				for spins := 0; atomic.LoadInt32(&arrived) < int32(clients*(j+1)) && spins < 200000; spins++ {
					if spins%64 == 63 {
						runtime.Gosched()
					}
				}
				k := fmt.Sprintf("k%d", in.Key)
				var out linOut
				call := atomic.AddInt64(&clock, 1)
				switch in.Kind {
				case 'S':
					out.Ok = cache.Set(k, routes[in.Val])
				case 'G':
					v, ok := cache.Get(k)
					out.Ok, out.Val = ok, -1
					if ok {
						if id, known := idOf[v]; known {
							out.Val = id
						} else {
							out.Val = -2 // a value nobody stored
						}
					}
				case 'H':
					out.Ok = cache.Has(k)
				case 'D':
					out.Ok = cache.Delete(k)
				case 'L':
					out.N = cache.Len()
				}
				ret := atomic.AddInt64(&clock, 1)
				local = append(local, porcupine.Operation{ClientId: c, Input: in, Call: call, Output: out, Return: ret})
			}
			mu.Lock()
			hist = append(hist, local...)
			mu.Unlock()
		}(c)
	}
	close(start)
	wg.Wait()

	describe := func() any {
		var hs []string
		m := linModel(capacity)
		for _, op := range hist {
			hs = append(hs, fmt.Sprintf("c%d [%d,%d] %s", op.ClientId, op.Call, op.Return, m.DescribeOperation(op.Input, op.Output)))
		}
		return map[string]any{"capacity": capacity, "keys": nkeys, "history": hs}
	}
	t.Describe(describe)
	t.AutoSample()
	// how concurrent was it really?
	overlaps := 0
	for i := range hist {
		for j := i + 1; j < len(hist); j++ {
			if hist[i].ClientId != hist[j].ClientId && hist[i].Call < hist[j].Return && hist[j].Call < hist[i].Return {
				overlaps++
			}
		}
	}
	t.Count("lin.overlapping_ops", int64(overlaps))
	t.Count("lin.operations", int64(len(hist)))
	res := porcupine.CheckOperationsTimeout(linModel(capacity), hist, 30*time.Second)
	switch res {
	case porcupine.Ok:
		t.Count("lin.histories_ok", 1)
		if overlaps > 0 {
			t.NonTrivial(fmt.Sprint(describe()))
		}
	case porcupine.Illegal:
		t.Fail("not-linearizable", "concurrent history on a cache of capacity %d is not linearizable w.r.t. the sequential bounded LRU map", capacity)
	default:
		t.Count("lin.unknown", 1)
		t.E.Inconclusive("porcupine timed out on a history of %d operations (case %d)", len(hist), t.Idx)
	}
	if err := cache.VerifCheck(); err != nil {
		t.Fail("structure-invariant-after-concurrency", "after the concurrent history: %v", err)
	}
}

var _ = rand.IntN

func c14RouterConcurrentCase(t *T) {
	r := t.R
	tb := GenTable(r, 2+r.IntN(6), 60)
	router := BuildRouter(tb, rux.CachingWithNum(1000), rux.HandleMethodNotAllowed)
	cache := router.VerifCachedRoutes()
	if cache == nil {
		t.Fail("no-cache-created", "caching enabled but the router has no cache")
		return
	}
	pool := tb.ProbePaths(r, 2, 3)
	type rq struct {
		m, p, key string
		dyn       bool
	}
	var reqs []rq
	for _, pb := range pool {
		np, ok := RefNormalize(pb.Path, false)
		if !ok {
			continue
		}
		for _, m := range []string{"GET", "POST", "HEAD", "TRACE", "DELETE"} {
			w, _ := tb.Resolve(m, np, false)
			km := m
			if w < 0 && m == "HEAD" {
				w, _ = tb.Resolve("GET", np, false)
				km = "GET"
			}
			reqs = append(reqs, rq{m, pb.Path, km + np, w >= 0 && !tb.Routes[w].Pat.IsStatic()})
		}
	}
	t.Describe(func() any {
		return map[string]any{"routes": tb.Describe(), "capacity": 1000, "goroutines": 8, "requests": len(reqs)}
	})
	t.AutoSample()
	if len(reqs) == 0 {
		return
	}
	var wg sync.WaitGroup
	var missing int64
	var first atomic.Value
	var resolved int64
	seeds := make([]uint64, 8)
	for g := range seeds {
		seeds[g] = r.Uint64()
	}
	for g := 0; g < 8; g++ {
		wg.Add(1)
		go func(g int) {
			defer wg.Done()
			lr := rand.New(rand.NewPCG(seeds[g], 3))
			for k := 0; k < 300; k++ {
				q := reqs[lr.IntN(len(reqs))]
				route, _, _ := router.Match(q.m, q.p)
				if !q.dyn {
					continue
				}
				atomic.AddInt64(&resolved, 1)
				if route == nil {
					if atomic.AddInt64(&missing, 1) == 1 {
						first.Store(fmt.Sprintf("%s %q found no route under concurrency although a dynamic route qualifies", q.m, q.p))
					}
					continue
				}
				if _, ok := cache.VerifPeek(q.key); !ok {
					if atomic.AddInt64(&missing, 1) == 1 {
						first.Store(fmt.Sprintf("%s %q was resolved to a dynamic route with caching enabled (capacity 1000, nothing is evicted), but the cache has no entry %q right afterwards", q.m, q.p, q.key))
					}
				}
			}
		}(g)
	}
	wg.Wait()
	t.Count("router_concurrent.dynamic_resolved", resolved)
	t.NonTrivial(fmt.Sprint(tb.Describe()))
	t.Tracef("%d dynamic requests resolved by 8 goroutines, %d without a cache entry afterwards; cache holds %d entries", resolved, missing, cache.Len())
	if missing > 0 {
		t.Fail("resolved-entry-absent-under-concurrency", "%d of %d resolved dynamic requests left no cache entry; first: %v", missing, resolved, first.Load())
	}
	if err := cache.VerifCheck(); err != nil {
		t.Fail("structure-invariant-after-concurrency", "%v", err)
	}
}
