package mon

import (
	"bytes"
	"encoding/json"
	"encoding/xml"
	"errors"
	"fmt"
	"io"
	"math"
	"math/rand/v2"
	"net/http"
	"reflect"
	"strings"
	"time"

	"github.com/gookit/rux"
	"github.com/gookit/rux/pkg/handlers"
	"github.com/gookit/rux/pkg/render"
)

func init() { Monitors["C19"] = runC19 }

const (
	ctText  = "text/plain; charset=utf-8"
	ctHTML  = "text/html; charset=utf-8"
	ctJSON  = "application/json; charset=utf-8"
	ctJSONP = "application/javascript; charset=utf-8"
	ctXML   = "application/xml; charset=utf-8"
)

type rvInner struct {
	K string  `json:"k" xml:"k"`
	F float64 `json:"f" xml:"f"`
}

type rvStruct struct {
	XMLName xml.Name `json:"-" xml:"rv"`
	ID      int      `json:"id" xml:"id"`
	Name    string   `json:"name" xml:"name"`
	Tags    []string `json:"tags" xml:"tags"`
	Inner   rvInner  `json:"inner" xml:"inner"`
	OK      bool     `json:"ok" xml:"ok"`
}

var textPool = []string{"", "plain", "<b>html</b> & \"quotes\"", "ünïcödé 日本語 😀", "line1\nline2\ttab", "ctrl\x01\x02", "</script><script>alert(1)</script>", "a\r\nb", strings.Repeat("x", 300), "%41 %zz", "null", "{}"}
var xmlTextPool = []string{"", "plain", "<b>html</b> & \"quotes\"", "ünïcödé 日本語 😀", "line1\nline2\ttab", "]]>", "a&amp;b", " lead and trail "}

type rvValue struct {
	Desc        string
	V           any
	JSONOK      bool
	XMLOK       bool       // round-trips through XML (checked by decoding)
	XMLFail     bool       // encoding/xml refuses the value (maps, channels, functions)
	NewXMLProbe func() any // pointer to decode XML into
}

func genValue(r *rand.Rand) rvValue {
	switch r.IntN(9) {
	case 0:
		s := pick(r, textPool)
		return rvValue{Desc: fmt.Sprintf("string %q", s), V: s, JSONOK: true, XMLOK: false}
	case 1:
		m := map[string]any{"a": 1, "s": pick(r, textPool), "nested": map[string]any{"list": []any{1, "two", 3.5, nil, true}, "deep": map[string]any{"x": pick(r, textPool)}}}
		return rvValue{Desc: fmt.Sprintf("nested map %v", m), V: m, JSONOK: true, XMLFail: true}
	case 2, 3:
		s := rvStruct{ID: r.IntN(1000) - 500, Name: pick(r, xmlTextPool), OK: chance(r, 1, 2), Inner: rvInner{K: pick(r, xmlTextPool), F: pick(r, []float64{0, 1.5, -2.25, 1e10})}}
		for i, n := 0, r.IntN(3); i < n; i++ {
			s.Tags = append(s.Tags, pick(r, xmlTextPool[1:]))
		}
		return rvValue{Desc: fmt.Sprintf("struct %+v", s), V: s, JSONOK: true, XMLOK: true, NewXMLProbe: func() any { return &rvStruct{} }}
	case 4:
		b := []byte(pick(r, textPool))
		return rvValue{Desc: fmt.Sprintf("bytes %q", b), V: b, JSONOK: true, XMLFail: true} // top-level []byte is refused by encoding/xml
	case 5:
		return rvValue{Desc: "chan int (unencodable)", V: make(chan int), XMLFail: true}
	case 6:
		return rvValue{Desc: "func() (unencodable)", V: func() {}, XMLFail: true}
	case 7:
		return rvValue{Desc: "NaN (unencodable in JSON)", V: math.NaN()}
	default:
		m := map[string]any{"bad": make(chan int), "ok": 1}
		return rvValue{Desc: "map with a channel inside (unencodable)", V: m, XMLFail: true}
	}
}

func jsonEqual(body []byte, v any) (bool, string) {
	want, err := json.Marshal(v)
	if err != nil {
		return false, "reference encoder fails: " + err.Error()
	}
	var a, b any
	if err := json.Unmarshal(body, &a); err != nil {
		return false, "body is not valid JSON: " + err.Error()
	}
	_ = json.Unmarshal(want, &b)
	if !reflect.DeepEqual(a, b) {
		return false, fmt.Sprintf("decoded %v, expected %v", a, b)
	}
	return true, ""
}

type oneByteReader struct{ r io.Reader }

func (o oneByteReader) Read(p []byte) (int, error) {
	if len(p) == 0 {
		return 0, nil
	}
	return o.r.Read(p[:1])
}

// dataErrReader returns the last chunk together with io.EOF (like net/http bodies of known length)
type dataErrReader struct {
	data string
	pos  int
	err  error // the error handed out together with the last bytes (io.EOF or a real one)
}

func (d *dataErrReader) Read(p []byte) (int, error) {
	if d.pos >= len(d.data) {
		return 0, d.err
	}
	n := copy(p, d.data[d.pos:])
	if n > 7 && d.pos == 0 && len(d.data) > 10 {
		n = 7 // first a partial chunk, then the rest together with the error
	}
	d.pos += n
	if d.pos >= len(d.data) {
		return n, d.err
	}
	return n, nil
}

type failingReader struct {
	data string
	pos  int
}

func (f *failingReader) Read(p []byte) (int, error) {
	if f.pos >= len(f.data) {
		return 0, errors.New("reader failed")
	}
	n := copy(p, f.data[f.pos:])
	f.pos += n
	return n, nil
}

// one helper invocation and what it must produce
type c19Call struct {
	Desc       string
	Do         func(c *rux.Context) error
	Status     int    // expected status (0 = do not check)
	CT         string // expected Content-Type ("" = do not check)
	Check      func(rec *Rec) (ok bool, why string)
	MustFail   bool // encoding must be reported through c.Errors or the returned error
	FailReturn bool // ... through the returned error
}

func normStatus(s int) int {
	if s <= 0 {
		return 200
	}
	return s
}

func genCall(r *rand.Rand) c19Call {
	status := pick(r, []int{-1, 0, 100, 102, 200, 201, 202, 204, 301, 304, 400, 404, 418, 500, 503, 599, 600, 701, 999})
	want := normStatus(status)
	preset := ""
	if chance(r, 1, 3) {
		preset = pick(r, []string{"application/vnd.custom+json", "text/csv", "application/octet-stream"})
	}
	setPreset := func(c *rux.Context) {
		if preset != "" {
			c.SetHeader("Content-Type", preset)
		}
	}
	keepPreset := func(doc string) string {
		if preset != "" {
			return preset
		}
		return doc
	}
	bodyIs := func(want string) func(rec *Rec) (bool, string) {
		return func(rec *Rec) (bool, string) {
			if rec.Body.String() != want {
				return false, fmt.Sprintf("body %q, expected %q", truncate(rec.Body.String(), 200), truncate(want, 200))
			}
			return true, ""
		}
	}
	switch r.IntN(20) {
	case 0:
		s := pick(r, textPool)
		return c19Call{Desc: fmt.Sprintf("Text(%d, %q) preset-CT %q", status, s, preset), Do: func(c *rux.Context) error { setPreset(c); c.Text(status, s); return nil }, Status: want, CT: ctText, Check: bodyIs(s)}
	case 1:
		s := pick(r, textPool)
		return c19Call{Desc: fmt.Sprintf("HTML(%d, %q)", status, s), Do: func(c *rux.Context) error { c.HTML(status, []byte(s)); return nil }, Status: want, CT: ctHTML, Check: bodyIs(s)}
	case 2:
		s := pick(r, textPool)
		return c19Call{Desc: fmt.Sprintf("HTMLString(%d, %q)", status, s), Do: func(c *rux.Context) error { c.HTMLString(status, s); return nil }, Status: want, CT: ctHTML, Check: bodyIs(s)}
	case 3, 4:
		v := genValue(r)
		if v.JSONOK && chance(r, 1, 5) {
			// a document sent behind something the handler wrote itself (an anti-hijacking prefix, an earlier
			// line of a stream): the first write has committed the response, the helper still delivers its document
			prefix := pick(r, []string{")]}',\n", "while(1);", "[1]\n", " "})
			return c19Call{Desc: fmt.Sprintf("Resp.Write(%q) then JSON(%d, %s)", prefix, status, v.Desc), Do: func(c *rux.Context) error {
				_, _ = c.Resp.Write([]byte(prefix))
				c.JSON(status, v.V)
				return nil
			}, Check: func(rec *Rec) (bool, string) {
				b := rec.Body.Bytes()
				if !bytes.HasPrefix(b, []byte(prefix)) {
					return false, fmt.Sprintf("body %q does not start with the handler's own bytes %q", truncate(string(b), 120), prefix)
				}
				return jsonEqual(b[len(prefix):], v.V)
			}}
		}
		call := c19Call{Desc: fmt.Sprintf("JSON(%d, %s) preset-CT %q", status, v.Desc, preset), Do: func(c *rux.Context) error { setPreset(c); c.JSON(status, v.V); return nil }, Status: want, CT: keepPreset(ctJSON)}
		if v.JSONOK {
			call.Check = func(rec *Rec) (bool, string) { return jsonEqual(rec.Body.Bytes(), v.V) }
		} else {
			call.MustFail = true
		}
		return call
	case 5:
		bs := []byte(pick(r, []string{`{"a":1}`, `[]`, `"s"`, ``, `not json at all`}))
		return c19Call{Desc: fmt.Sprintf("JSONBytes(%d, %q)", status, bs), Do: func(c *rux.Context) error { c.JSONBytes(status, bs); return nil }, Status: want, CT: ctJSON, Check: bodyIs(string(bs))}
	case 6, 7:
		v := genValue(r)
		cb := pick(r, []string{"cb", "jQuery123_456", "a.b.c", "cbBad", `window["cb_1"]`, `handlers['on-data']`, "a.b=c.d", "$cb", "ns.fn$2"}) // any reference a script can call, member access by bracket included
		call := c19Call{Desc: fmt.Sprintf("JSONP(%d, %q, %s) preset-CT %q", status, cb, v.Desc, preset), Do: func(c *rux.Context) error { setPreset(c); c.JSONP(status, cb, v.V); return nil }, Status: want, CT: keepPreset(ctJSONP)}
		if v.JSONOK {
			call.Check = func(rec *Rec) (bool, string) {
				b := rec.Body.String()
				if !strings.HasPrefix(b, cb+"(") || !strings.HasSuffix(b, ");") {
					return false, fmt.Sprintf("body %q is not wrapped as %s(...);", truncate(b, 200), cb)
				}
				return jsonEqual([]byte(b[len(cb)+1:len(b)-2]), v.V)
			}
		} else {
			call.MustFail = true
		}
		return call
	case 8, 9:
		v := genValue(r)
		indent := pick(r, []string{"", "", "  "})
		call := c19Call{Desc: fmt.Sprintf("XML(%d, %s, indent %q) preset-CT %q", status, v.Desc, indent, preset), Do: func(c *rux.Context) error { setPreset(c); c.XML(status, v.V, indent); return nil }, Status: want, CT: keepPreset(ctXML)}
		if v.XMLOK {
			call.Check = func(rec *Rec) (bool, string) {
				b := rec.Body.String()
				if !strings.HasPrefix(b, xml.Header) {
					return false, "body does not start with the XML header"
				}
				p := v.NewXMLProbe()
				if err := xml.Unmarshal([]byte(b), p); err != nil {
					return false, "body is not valid XML: " + err.Error()
				}
				got := reflect.ValueOf(p).Elem().Interface().(rvStruct)
				wantV := v.V.(rvStruct)
				got.XMLName, wantV.XMLName = xml.Name{}, xml.Name{}
				if len(got.Tags) == 0 {
					got.Tags = nil
				}
				if len(wantV.Tags) == 0 {
					wantV.Tags = nil
				}
				if indent != "" {
					// pretty printing may not alter data, but leaf strings are compared trimmed-insensitively only when equal otherwise
				}
				if !reflect.DeepEqual(got, wantV) {
					return false, fmt.Sprintf("decoded %+v, expected %+v", got, wantV)
				}
				return true, ""
			}
		} else if v.XMLFail {
			call.MustFail = true
		}
		return call
	case 10:
		ct := pick(r, []string{"image/png", "application/pdf", "text/csv; charset=utf-8"})
		data := []byte(pick(r, textPool))
		return c19Call{Desc: fmt.Sprintf("Blob(%d, %q, %q)", status, ct, data), Do: func(c *rux.Context) error { c.Blob(status, ct, data); return nil }, Status: want, CT: ct, Check: bodyIs(string(data))}
	case 11, 12:
		ct := pick(r, []string{"text/event-stream", "application/octet-stream"})
		s := pick(r, textPool)
		kind := pick(r, []string{"strings.Reader", "LimitReader", "oneByteReader", "bytes.Buffer", "failing", "data+EOF", "data+error", "partly-read strings.Reader", "partly-read bytes.Reader", "SectionReader", "failing ReadCloser", "ReadCloser"})
		skip := 0
		if strings.HasPrefix(kind, "partly-read") && len(s) > 0 {
			skip = 1 + r.IntN(len(s)) // the caller has consumed a header of the source already
		}
		mk := func() io.Reader {
			switch kind {
			case "partly-read strings.Reader":
				rd := strings.NewReader(s)
				_, _ = io.CopyN(io.Discard, rd, int64(skip))
				return rd
			case "partly-read bytes.Reader":
				rd := bytes.NewReader([]byte(s))
				_, _ = io.CopyN(io.Discard, rd, int64(skip))
				return rd
			case "failing ReadCloser":
				return io.NopCloser(&dataErrReader{data: s, err: errors.New("upstream reset")}) // Close() succeeds, Read failed
			case "ReadCloser":
				return io.NopCloser(strings.NewReader(s))
			case "SectionReader":
				return io.NewSectionReader(strings.NewReader("xx"+s+"yy"), 2, int64(len(s)))
			case "strings.Reader":
				return strings.NewReader(s)
			case "LimitReader":
				return io.LimitReader(strings.NewReader(s), int64(len(s)))
			case "oneByteReader":
				return oneByteReader{strings.NewReader(s)}
			case "bytes.Buffer":
				return bytes.NewBufferString(s)
			case "data+EOF":
				return &dataErrReader{data: s, err: io.EOF}
			case "data+error":
				return &dataErrReader{data: s, err: errors.New("connection reset")}
			}
			return &failingReader{data: s}
		}
		call := c19Call{Desc: fmt.Sprintf("Stream(%d, %q, %s of %q, %d bytes already consumed)", status, ct, kind, s, skip), Do: func(c *rux.Context) error { c.Stream(status, ct, mk()); return nil }, Status: want, CT: ct, Check: bodyIs(s[skip:])}
		if kind == "failing" || kind == "failing ReadCloser" || (kind == "data+error" && s != "") {
			call.MustFail = true
			call.Check = bodyIs(s) // what was read before the failure is still delivered
		}
		return call
	case 13:
		return c19Call{Desc: "NoContent()", Do: func(c *rux.Context) error { c.NoContent(); return nil }, Status: 204, Check: bodyIs("")}
	case 14:
		code := pick(r, []int{301, 302, 303, 307, 308})
		to := pick(r, []string{"/to", "/to?x=1&y=2", "/a%20b", "https://example.org/x"})
		useDefault := chance(r, 1, 4)
		return c19Call{Desc: fmt.Sprintf("Redirect(%q, %d default=%v)", to, code, useDefault), Do: func(c *rux.Context) error {
			if useDefault {
				c.Redirect(to)
			} else {
				c.Redirect(to, code)
			}
			return nil
		}, Status: map[bool]int{true: 301, false: code}[useDefault], Check: func(rec *Rec) (bool, string) {
			if rec.H.Get("Location") != to {
				return false, fmt.Sprintf("Location %q, expected %q", rec.H.Get("Location"), to)
			}
			return true, ""
		}}
	case 15:
		msg := pick(r, textPool)
		code := pick(r, []int{400, 401, 403, 404, 500, 503})
		return c19Call{Desc: fmt.Sprintf("HTTPError(%q, %d)", msg, code), Do: func(c *rux.Context) error { c.HTTPError(msg, code); return nil }, Status: code, CT: ctText, Check: bodyIs(msg + "\n")}
	case 16, 17:
		// pkg/render functions: never override a preset Content-Type
		v := genValue(r)
		fn := pick(r, []string{"JSON", "JSONIndented", "JSONP", "XML", "XMLPretty", "Text", "HTML", "Blob", "JSONRenderer", "XMLRenderer"})
		s := pick(r, textPool)
		call := c19Call{Desc: fmt.Sprintf("render.%s(%s / %q) preset-CT %q", fn, v.Desc, s, preset), Status: 0}
		var doc string
		call.Do = func(c *rux.Context) error {
			setPreset(c)
			switch fn {
			case "JSON":
				return render.JSON(c.Resp, v.V)
			case "JSONIndented":
				return render.JSONIndented(c.Resp, v.V)
			case "JSONRenderer":
				return render.JSONRenderer{Indent: " ", NotEscape: true}.Render(c.Resp, v.V)
			case "JSONP":
				return render.JSONP("cb", v.V, c.Resp)
			case "XML":
				return render.XML(c.Resp, v.V)
			case "XMLPretty":
				return render.XMLPretty(c.Resp, v.V)
			case "XMLRenderer":
				return render.XMLRenderer{Indent: "\t"}.Render(c.Resp, v.V)
			case "Text":
				return render.Text(c.Resp, s)
			case "HTML":
				return render.HTML(c.Resp, s)
			}
			return render.Blob(c.Resp, "image/png", []byte(s))
		}
		switch fn {
		case "JSON", "JSONIndented", "JSONRenderer":
			doc = ctJSON
			if v.JSONOK {
				call.Check = func(rec *Rec) (bool, string) { return jsonEqual(rec.Body.Bytes(), v.V) }
			} else {
				call.MustFail, call.FailReturn = true, true
			}
		case "JSONP":
			doc = ctJSONP
			if v.JSONOK {
				call.Check = func(rec *Rec) (bool, string) {
					b := rec.Body.String()
					if !strings.HasPrefix(b, "cb(") || !strings.HasSuffix(b, ");") {
						return false, fmt.Sprintf("body %q is not wrapped as cb(...);", truncate(b, 200))
					}
					return jsonEqual([]byte(b[3:len(b)-2]), v.V)
				}
			} else {
				call.MustFail, call.FailReturn = true, true
			}
		case "XML", "XMLPretty", "XMLRenderer":
			doc = ctXML
			if v.XMLOK {
				call.Check = func(rec *Rec) (bool, string) {
					var p rvStruct
					if err := xml.Unmarshal(rec.Body.Bytes(), &p); err != nil {
						return false, "body is not valid XML: " + err.Error()
					}
					w := v.V.(rvStruct)
					p.XMLName, w.XMLName = xml.Name{}, xml.Name{}
					if len(p.Tags) == 0 {
						p.Tags = nil
					}
					if len(w.Tags) == 0 {
						w.Tags = nil
					}
					if !reflect.DeepEqual(p, w) {
						return false, fmt.Sprintf("decoded %+v, expected %+v", p, w)
					}
					return true, ""
				}
			} else if v.XMLFail {
				call.MustFail, call.FailReturn = true, true
			}
		case "Text":
			doc = ctText
			call.Check = bodyIs(s)
		case "HTML":
			doc = ctHTML
			call.Check = bodyIs(s)
		default:
			doc = "image/png"
			call.Check = bodyIs(s)
		}
		call.CT = keepPreset(doc)
		return call
	default:
		// render.Auto: content negotiation
		v := genValue(r)
		firstFails := chance(r, 1, 4)                // the first supported type cannot encode the value: the failure must be reported
		for !firstFails && (!v.JSONOK || !v.XMLOK) { // a value every supported format can carry
			v = genValue(r)
		}
		supported := map[string]string{"application/json": "json", "text/plain": "text", "application/xml": "xml", "text/xml": "xml"}
		var parts []string
		first := ""
		n := r.IntN(4)
		for i := 0; i < n; i++ {
			typ := pick(r, []string{"application/json", "text/plain", "application/xml", "text/xml", "image/png", "application/x-yaml", "*/*", "application/jsonx", "text/html"})
			// text/html may stand anywhere: Auto has no HTML renderer, so it is not a supported type
			if k, ok := supported[typ]; ok && first == "" {
				first = k
			}
			p := typ
			if chance(r, 1, 3) {
				p = " " + p + pick(r, []string{";q=0.9", " ; q=0.1", ";level=1"})
			}
			if chance(r, 1, 5) {
				p = p + " "
			}
			parts = append(parts, p)
		}
		accept := strings.Join(parts, ",")
		if len(parts) == 0 {
			first = "text" // no Accept header: the documented fallback type text/plain
		}
		call := c19Call{Desc: fmt.Sprintf("render.Auto(Accept %q, %s) preset-CT %q", accept, v.Desc, preset)}
		call.Do = func(c *rux.Context) error {
			setPreset(c)
			c.Req.Header.Set("Accept", accept)
			if accept == "" {
				c.Req.Header.Del("Accept")
			}
			return render.Auto(c.Resp, c.Req, v.V)
		}
		if firstFails && first == "" {
			call.MustFail, call.FailReturn = true, true // no supported type at all
			return call
		}
		if firstFails {
			// decide by the FIRST supported type only: if it cannot encode the value the error is
			// reported (no silent switch to a later type, no success)
			fails := map[string]bool{"json": !v.JSONOK, "text": !v.JSONOK && !isStringLike(v.V), "xml": v.XMLFail}[first]
			if fails {
				call.MustFail, call.FailReturn = true, true
				return call
			}
			if !v.JSONOK || !v.XMLOK {
				// the first type can carry it; keep only the status-free checks that do not need a decoder
				call.CT = ""
				return call
			}
		}
		switch first {
		case "json":
			call.CT = keepPreset(ctJSON)
			call.Check = func(rec *Rec) (bool, string) { return jsonEqual(rec.Body.Bytes(), v.V) }
		case "text":
			call.CT = keepPreset(ctText)
			call.Check = func(rec *Rec) (bool, string) { return jsonEqual(rec.Body.Bytes(), v.V) } // non-string values are sent as JSON text
		case "xml":
			call.CT = keepPreset(ctXML)
			call.Check = func(rec *Rec) (bool, string) {
				var p rvStruct
				if err := xml.Unmarshal(rec.Body.Bytes(), &p); err != nil {
					return false, "body is not valid XML: " + err.Error()
				}
				return true, ""
			}
		default:
			call.MustFail, call.FailReturn = true, true
		}
		return call
	}
}

func runC19(e *Env) {
	e.Rule = "short histories (3..8 calls on one router, so that a failed encoding is followed by a successful one) of response helper calls: Context.Text/HTML/HTMLString/JSON/JSONBytes/JSONP/XML/Blob/Stream/NoContent/Redirect/HTTPError and pkg/render JSON/JSONIndented/JSONRenderer/JSONP/XML/XMLPretty/XMLRenderer/Text/HTML/Blob/Auto; statuses from {-1,0,100,...,599,600,701,999}; request methods GET, POST, PUT and HEAD (through the GET route); a third of the calls run behind pkg/handlers.Timeout(1h), a quarter behind a buffering middleware that replaced c.Resp and replays status and body; values: strings with HTML/unicode/control characters, nested maps, structs, byte slices and unencodable values (chan, func, NaN, map holding a channel); Stream readers with and without WriteTo, one-byte reads and a failing reader; preset or absent Content-Type; Accept lists with q-parameters, blanks, unsupported types (incl. text/html, for which Auto has no renderer, anywhere in the list). Oracle: recorded status == given (200 for <= 0), Content-Type == documented constant (or the preset one where the documentation says it is preserved), body decodes with an independent decoder to the given value, Auto renders the first supported type, encoding failures surface in c.Errors / the returned error and never panic. Non-trivial: every call; distinct by call description. Stream sources also include partly consumed strings/bytes readers and a SectionReader; an announced Content-Length must equal the delivered body length. A fifth of the encodable JSON calls follow a write of the handler itself (a prefix, an earlier line): the document is still delivered behind it. A quarter of the calls are served right after a request of the same router that left a writer of its own in c.Resp. JSONP callbacks include bracket member access with quotes, an assignment target and $ names; they are delivered as given."
	e.Assumptions = []string{
		"values compared after decoding with encoding/json / encoding/xml (numbers as float64)",
		"XML strings restricted to characters XML can carry",
		"text/html counts as not supported by render.Auto (it has no HTML renderer): a supported type listed behind it is picked",
	}
	e.RunCases("histories", e.N(20000, 4000000), 0, func(t *T) {
		r := t.R
		n := 3 + r.IntN(6)
		var descs []string
		t.Describe(func() any { return map[string]any{"calls": descs} })
		for i := 0; i < n; i++ {
			call := genCall(r)
			// the helpers do the same for every request method (what a server makes of a HEAD response's body is
			// the server's business): HEAD reaches the GET route through the router's fallback
			method := pick(r, []string{"GET", "GET", "POST", "HEAD", "PUT"})
			if method != "GET" {
				call.Desc += " [" + method + " request]"
			}
			descs = append(descs, call.Desc)
			if i == 0 {
				t.AutoSample()
			}
			router := rux.New()
			leave := func() {}
			if chance(r, 1, 4) {
				leave = WriterLeaver(router) // the request before this one left its own writer in c.Resp
				call.Desc += " [the previous request of the router left its writer in c.Resp]"
				descs[len(descs)-1] = call.Desc
			}
			if chance(r, 1, 3) {
				router.OnError = func(c *rux.Context) {} // a hook that only logs
			}
			if chance(r, 1, 4) {
				// a buffering middleware (compression, ETag, response caching): it puts its own writer into c.Resp,
				// lets the chain run and replays status and body afterwards - whatever helper the handler uses, the
				// status it was given arrives at that writer like the body does
				router.Use(func(c *rux.Context) {
					orig := c.Resp
					buf := &c05Buffer{hdr: orig.Header()}
					c.Resp = buf
					c.Next()
					c.Resp = orig
					st := buf.status
					if st == 0 {
						st = 200
					}
					orig.WriteHeader(st)
					if buf.body.Len() > 0 {
						_, _ = orig.Write(buf.body.Bytes())
					}
				})
				call.Desc += " [behind a buffering middleware that replaced c.Resp]"
				descs[len(descs)-1] = call.Desc
			}
			if chance(r, 1, 3) {
				// the stock deadline middleware in front (its deadline never passes): it must leave the helpers' status alone
				router.Use(handlers.Timeout(time.Hour))
				call.Desc += " [behind handlers.Timeout(1h)]"
				descs[len(descs)-1] = call.Desc
			}
			var retErr error
			var ctxErrs int
			hnd := func(c *rux.Context) {
				retErr = call.Do(c)
				ctxErrs = len(c.Errors)
			}
			if method == "HEAD" || method == "GET" {
				router.GET("/x", hnd)
			} else {
				router.Any("/x", hnd)
			}
			rec := NewRec()
			var w http.ResponseWriter = rec
			if chance(r, 1, 3) {
				w = RecRF{rec} // like net/http's response: the underlying writer has ReadFrom
			}
			leave()
			pv, panicked := catch(func() { router.ServeHTTP(w, NewReq(method, "/x")) })
			t.Count("calls.total", 1)
			t.NonTrivial(call.Desc)
			t.Tracef("%s -> writer [%s] Content-Type %q body %q returned err=%v ctx errors=%d", call.Desc, rec.CallLog(), rec.H.Get("Content-Type"), truncate(rec.Body.String(), 80), retErr, ctxErrs)
			if panicked {
				t.Fail("helper-panics", "%s panicked: %v", call.Desc, pv)
				return
			}
			if call.MustFail {
				t.Count("calls.unencodable", 1)
				reported := ctxErrs > 0 || retErr != nil
				if call.FailReturn {
					reported = retErr != nil
				}
				if !reported {
					t.Fail("encoding-failure-not-reported", "%s: the value cannot be encoded, but neither the context's error list nor the returned error reports it (body %q)", call.Desc, truncate(rec.Body.String(), 120))
					return
				}
				// a helper that was given a status and failed before writing anything still owes the
				// client that status (helpers that encode through c.Errors: JSON, JSONP, XML, Stream)
				if call.Status != 0 && !call.FailReturn && rec.Body.Len() == 0 && (rec.Status() != call.Status || rec.NumWH() != 1) {
					t.Fail("status-lost-after-encoding-failure", "%s: nothing was written; expected exactly one WriteHeader(%d); the writer saw: %s", call.Desc, call.Status, rec.CallLog())
					return
				}
				if call.Check == nil {
					continue
				}
			} else if retErr != nil {
				t.Fail("unexpected-error", "%s returned an error: %v", call.Desc, retErr)
				return
			}
			if call.Status != 0 && (rec.Status() != call.Status || rec.NumWH() != 1) {
				t.Fail("wrong-status", "%s: expected exactly one WriteHeader(%d); the writer saw: %s", call.Desc, call.Status, rec.CallLog())
				return
			}
			if call.CT != "" && !call.MustFail {
				got := ""
				if rec.HeaderAtCommit != nil {
					got = rec.HeaderAtCommit.Get("Content-Type")
				}
				if got != call.CT {
					t.Fail("wrong-content-type", "%s: Content-Type at commit is %q, expected %q", call.Desc, got, call.CT)
					return
				}
			}
			if call.Check != nil {
				if ok, why := call.Check(rec); !ok {
					t.Fail("body-does-not-decode-to-value", "%s: %s", call.Desc, why)
					return
				}
			}
			// whatever length the helper announces is the length of what it delivers
			if rec.HeaderAtCommit != nil && !call.MustFail {
				if cl := rec.HeaderAtCommit.Get("Content-Length"); cl != "" {
					t.Count("calls.with_content_length", 1)
					if cl != itoa(rec.Body.Len()) {
						t.Fail("content-length-differs-from-body", "%s: announces Content-Length %s but delivers %d body bytes (%q)", call.Desc, cl, rec.Body.Len(), truncate(rec.Body.String(), 80))
						return
					}
				}
			}
		}
	})
	e.Require("calls.total", 20000)
	e.Require("calls.unencodable", 1000)
}

var _ http.Header

func isStringLike(v any) bool {
	switch v.(type) {
	case string, []byte:
		return true
	}
	return false
}
