package mon

import (
	"fmt"
	"reflect"
	"sort"
	"strings"
	"sync/atomic"

	"github.com/gookit/rux"
)

func init() { Monitors["C16"] = runC16 }

type c16Type struct {
	Mask     int
	WithUses bool
	Name     string
	New      func(tag string) any // pointer to struct (valid controller); the tag is per-instance state the actions report
	Value    func() any           // the struct by value (must be rejected)
}

var c16Actions = []string{"index", "create", "store", "show", "edit", "update", "delete"}

// c16Act is the body of every generated action method.
func c16Act(c *rux.Context, tag, action string) {
	rec := recOf(c)
	rec.Route = action
	rec.Params = copyParams(c.Params)
	rec.Ev("action:%s", action)
	rec.Ev("instance:%s", tag)
	c.WriteString(action + ":" + c.Param("id"))
}

// c16Uses returns one marker middleware per action - also for actions the
// controller does not implement.
func c16Uses() map[string][]rux.HandlerFunc {
	// half of the calls return the one long-lived map (a controller field / package variable), the
	// others a fresh literal: registration must treat both as read-only input
	if atomic.AddInt64(&c16UsesCalls, 1)%2 == 0 {
		return c16SharedUses
	}
	return c16NewUses()
}

// c16Mark is THE middleware factory of this monitor: the per-action middleware of Uses(), the
// middleware handed to Resource and the group middleware are all closures of this one function
// literal (as an application's requireRole("admin") / requireRole("editor") are) - different
// middleware although they share their code.
//
//go:noinline
func c16Mark(kind, id string) rux.HandlerFunc {
	return func(c *rux.Context) { recOf(c).Ev("%s:%s", kind, id) }
}

var c16UsesCalls int64
var c16SharedUses = c16NewUses()

func c16NewUses() map[string][]rux.HandlerFunc {
	m := map[string][]rux.HandlerFunc{}
	for _, a := range []string{"Index", "Create", "Store", "Show", "Edit", "Update", "Delete"} {
		low := strings.ToLower(a)
		m[a] = []rux.HandlerFunc{c16Mark("mw", low)}
	}
	// keys that are no action names (they differ from one by case, or name nothing): never to be attached
	for _, k := range []string{"index", "SHOW", "eDit", "create", "Destroy", ""} {
		k := k
		m[k] = []rux.HandlerFunc{func(c *rux.Context) {
			recOf(c).Ev("mw:NOT-AN-ACTION-KEY(%q)", k)
		}}
	}
	return m
}

// the documented REST table
type c16Row struct {
	Action  string
	Methods []string
	Suffix  []Seg // segments after the resource path
}

var idVar = &Var{Name: "id", Class: classByIDInit("default")}

func classByIDInit(id string) *Class {
	for _, c := range classes {
		if c.ID == id {
			return c
		}
	}
	return nil
}

var c16Table = []c16Row{
	{"index", []string{"GET"}, nil},
	{"create", []string{"GET"}, []Seg{{Pre: "create"}}},
	{"store", []string{"POST"}, nil},
	{"show", []string{"GET"}, []Seg{{Var: idVar}}},
	{"edit", []string{"GET"}, []Seg{{Var: idVar}, {Pre: "edit"}}},
	{"update", []string{"PUT", "PATCH"}, []Seg{{Var: idVar}}},
	{"delete", []string{"DELETE"}, []Seg{{Var: idVar}}},
}

func hasEvent(evs []string, want string) bool {
	for _, e := range evs {
		if e == want {
			return true
		}
	}
	return false
}

func runC16(e *Env) {
	e.Rule = "ALL 256 controller types (128 subsets of {Index, Create, Store, Show, Edit, Update, Delete} x with/without Uses(); Uses() returns a marker middleware for every action incl. unimplemented ones) x base paths {/, /api/, /v1/admin/, /{tenant}/, /{tenant:\\d+}/, /V1/Admin/, /api/v1.0/; inside a group also the empty string, api/, v1/admin/} x inside/outside a Group (single group, nested groups 2+1 middleware, 3 middleware passed to Resource itself: slices with spare capacity), registered on fresh routers several times (every third plain case mounts the same controller type a second time under /second/ on the same router and checks both mounts) (map iteration inside Resource is random), HandleMethodNotAllowed on, cache on/off, a seventh with HandleFallbackRoute and Any(\"/*\"). Observed: Router.Routes() as (method, path, name) triples, NamedRoutes(), and the answers to 9 methods + 4 method tokens that are not upper case (get, Post, delete, head) x {/res, /res/, /res/create, /res/7, /res/abc-1, /res/create/edit, /res/7/edit, /res/abc-1/edit, /res/7/x, /res/edit, /other, and three of them with trailing non-ASCII white space}: answering action + id, marker middleware seen, 405 + Allow set, 404. Oracle: the documented seven-row table filtered by the subset (+ the C06 resolution order). Resource(base, T{}) and Resource(base, &string) must panic. Non-trivial: every (type, base, group) combination; distinct by it. Every controller instance carries a tag that its actions report (the answering action must belong to the instance given to that Resource call); Uses() maps also contain keys that are no action names (case variants, empty, unknown) whose middleware must never run. Two fifths of the grouped cases call Use() 2..3 times in the group body before mounting the resource (the group's list then has spare capacity). All marker middleware (group, Resource, Uses) are closures of one function literal. Half of the variable-base cases also register unrelated variable routes whose literal first node is the value the requests use for {tenant}."
	e.Assumptions = []string{
		"non-strict mode (the documented table is the non-strict one); base paths end in '/' as documented",
	}
	e.Exhaustive = true
	bases := []string{"/", "/api/", "/v1/admin/"} // inside a group also without the leading slash
	reps := int(e.N(2, 8))
	combos := int64(len(c16Types) * len(bases) * 2)
	e.Note("exhaustive_scope", fmt.Sprintf("256 controller types x %d bases x {plain, in group} x %d repetitions", len(bases), reps))
	e.RunCases("resource", combos*int64(reps), 0, func(t *T) {
		idx := t.Idx % combos
		ct := c16Types[idx%int64(len(c16Types))]
		idx /= int64(len(c16Types))
		base := bases[idx%int64(len(bases))]
		inGroup := idx/int64(len(bases)) == 1
		if inGroup && (t.Idx/combos)%2 == 1 {
			base = strings.TrimPrefix(base, "/") // "", "api/", "v1/admin/": relative to the enclosing group
		}
		if !inGroup && (t.Idx/combos)%2 == 1 && base == "/api/" {
			base = "/{tenant}/" // a base path with a variable: create and show are both dynamic routes then
			if t.Idx%4 >= 2 {
				base = `/{tenant:\d+}/` // ... with a regex of its own, which is the tenant's and not the id's
			}
		}
		if !inGroup && (t.Idx/combos)%2 == 1 && base == "/v1/admin/" {
			base = "/V1/Admin/" // the base path is the caller's text: only the controller name is lower-cased
			if t.Idx%4 >= 2 {
				base = "/api/v1.0/" // a dot in the literal text in front of the {id} routes
			}
		}
		second := !inGroup && (t.Idx/combos+t.Idx)%3 == 0 // the same controller type is mounted a second time under another base
		cacheOn := t.Idx%3 == 0
		useInBody := 0 // number of Use() calls in the group body before the resource is mounted
		t.Describe(func() any {
			var impl []string
			for i, a := range c16Actions {
				if ct.Mask>>i&1 == 1 {
					impl = append(impl, a)
				}
			}
			return map[string]any{"controller": ct.Name, "implements": impl, "with_Uses": ct.WithUses, "base": base, "in_group": inGroup, "mounted_again_under_/second/": second, "cache": cacheOn, "HandleFallbackRoute_and_Any(/*)": t.Idx%7 == 3, "Use_calls_in_group_body_before_Resource": useInBody, "middleware_variant(0 none/1 group,1 +3 Resource mw,2 nested groups,3 both)": int(t.Idx/combos+t.Idx) % 4}
		})
		if t.Idx < 2 || t.Idx == 77 {
			t.wantSample = true
		}
		t.NonTrivial(fmt.Sprint(ct.Name, base, inGroup))
		opts := []func(*rux.Router){rux.HandleMethodNotAllowed}
		fallbackOn := t.Idx%7 == 3 // HandleFallbackRoute + Any("/*"): whatever the table does not answer (and HEAD->GET does not) goes there
		if fallbackOn {
			opts = append(opts, rux.HandleFallbackRoute)
		}
		if cacheOn {
			opts = append(opts, rux.CachingWithNum(3))
		}
		router := rux.New(opts...)
		marker := func(id string) rux.HandlerFunc { return c16Mark("gmw", id) }
		if t.Idx%2 == 1 {
			// the application's own not-found page (no global middleware on these routers)
			router.NotFound(func(c *rux.Context) {
				c.SetStatus(404)
				c.WriteString("custom-not-found")
			})
		}
		if t.Idx%3 == 1 {
			// an unrelated group registered before: no middleware argument, Use() in its body
			router.Group("/adm", func() {
				router.Use(marker("leaked-from-the-adm-group"))
				router.GET("/x", func(c *rux.Context) { c.WriteString("adm") })
			})
		}
		// middleware handed to Resource itself, and enclosing groups; slices with spare
		// capacity on purpose (built by successive appends)
		var resMW []rux.HandlerFunc
		var wantGroupEv []string
		variant := int(t.Idx/combos+t.Idx) % 4
		reg := func() { router.Resource(base, ct.New("mount0"), resMW...) }
		prefix := ""
		if inGroup {
			prefix = "/grp"
			inner := reg
			if t.Idx%5 < 2 {
				// the group body calls Use() before it mounts the resource: the group's list grows by
				// appends (spare capacity) and every action route is derived from that one list
				plain := reg
				nUse := 2 + int(t.Idx%2)
				inner = func() {
					for i := 0; i < nUse; i++ {
						router.Use(marker(fmt.Sprintf("u%d", i+1)))
					}
					plain()
				}
				useInBody = nUse
				t.Count("resource.group_body_calls_Use_first", 1)
			}
			switch variant {
			case 0, 1:
				wantGroupEv = append(wantGroupEv, "gmw:group")
				reg = func() { router.Group("/grp", inner, marker("group")) }
			default:
				// nested: outer group with 2 middleware, inner group with 1 (len 3, cap 4 after append)
				prefix = "/grp/in"
				wantGroupEv = append(wantGroupEv, "gmw:o1", "gmw:o2", "gmw:i1")
				reg = func() {
					router.Group("/grp", func() { router.Group("/in", inner, marker("i1")) }, marker("o1"), marker("o2"))
				}
			}
			for i := 0; i < useInBody; i++ {
				wantGroupEv = append(wantGroupEv, fmt.Sprintf("gmw:u%d", i+1))
			}
		}
		if variant == 1 || variant == 3 {
			for _, id := range []string{"r1", "r2", "r3"} {
				resMW = append(resMW, marker(id)) // len 3, cap 4
				wantGroupEv = append(wantGroupEv, "gmw:"+id)
			}
		}
		tenantSibling := strings.HasPrefix(base, "/{tenant") && t.Idx%2 == 0
		if tenantSibling {
			// unrelated routes with variables whose literal first node is the very value the requests use for
			// {tenant}: they never fit a resource URL, the resource below the variable answers as before
			for _, first := range []string{"acme", "42"} {
				router.Any("/"+first+"/{x}/sibling-of-the-tenant-routes", func(c *rux.Context) { c.WriteString("sibling") })
			}
			t.Count("resource.tenant_value_is_first_node_of_other_routes", 1)
		}
		if pv, panicked := catch(reg); panicked {
			t.Fail("resource-panics", "Resource(%q, &%s{}) panicked: %v", base, ct.Name, pv)
			return
		}
		if fallbackOn {
			router.Any("/*", func(c *rux.Context) { recOf(c).Ev("fallback-route"); c.WriteString("fallback") })
			t.Count("resource.with_fallback_route", 1)
		}
		resName := strings.ToLower(ct.Name)
		own, _ := RefNormalize(base+resName, false)
		full, _ := RefNormalize(prefix+own, false)
		wantTriples := map[string]bool{}
		wantNames := map[string]bool{}
		if t.Idx%3 == 1 {
			wantTriples["GET /adm/x "] = true // the harness's own unrelated route
		}
		if fallbackOn {
			for _, m := range AllMethods {
				wantTriples[m+" /* "] = true
			}
		}
		if tenantSibling {
			for _, m := range AllMethods {
				wantTriples[m+" /acme/{x}/sibling-of-the-tenant-routes "] = true
				wantTriples[m+" /42/{x}/sibling-of-the-tenant-routes "] = true
			}
		}
		mounts := []string{full}
		if second {
			mounts = append(mounts, "/second/"+resName)
		}
		for mi, full := range mounts {
			if mi == 1 {
				if pv, panicked := catch(func() { router.Resource("/second/", ct.New("mount1")) }); panicked {
					t.Fail("resource-panics", "second Resource(\"/second/\", &%s{}) panicked: %v", ct.Name, pv)
					return
				}
				base, wantGroupEv = "/second/", nil
				t.Count("resource.second_mount", 1)
			}

			// expected table
			tb := &Table{}
			fullSegs := []Seg{}
			for _, s := range strings.Split(strings.Trim(full, "/"), "/") {
				if s == "{tenant}" {
					fullSegs = append(fullSegs, Seg{Var: &Var{Name: "tenant", Class: classes[0]}})
					continue
				}
				if s == `{tenant:\d+}` {
					fullSegs = append(fullSegs, Seg{Var: &Var{Name: "tenant", Class: classByID["digits"]}})
					continue
				}
				fullSegs = append(fullSegs, Seg{Pre: s})
			}
			for i, row := range c16Table {
				if ct.Mask>>i&1 == 0 {
					continue
				}
				pat := &Pattern{Segs: append(append([]Seg{}, fullSegs...), row.Suffix...)}
				name := resName + "_" + row.Action
				tb.Routes = append(tb.Routes, &RouteSpec{Name: row.Action, Pat: pat, Methods: row.Methods})
				wantNames[name] = true
				for _, m := range row.Methods {
					wantTriples[m+" "+pat.String()+" "+name] = true
				}
			}
			t.Count("resource.registrations", 1)

			// registered triples
			gotTriples := map[string]bool{}
			for _, ri := range router.Routes() {
				for _, m := range ri.Methods {
					gotTriples[m+" "+ri.Path+" "+ri.Name] = true
				}
			}
			if d := setDiff(wantTriples, gotTriples); d != "" {
				t.Fail("registered-table-differs", "Resource(%q, &%s{}) (group %q): registered (method path name) triples differ from the documented table: %s", base, ct.Name, prefix, d)
				return
			}
			gotNames := map[string]bool{}
			for n := range router.NamedRoutes() {
				gotNames[n] = true
			}
			if d := setDiff(wantNames, gotNames); d != "" {
				t.Fail("named-routes-differ", "Resource(%q, &%s{}): named routes differ: %s", base, ct.Name, d)
				return
			}

			// probe matrix
			cfg := RouterCfg{NotAllowed: true, CacheCap: -1}
			if fallbackOn {
				cfg.Fallback, cfg.FallbackMeth = true, AllMethods
				tb.Routes = append(tb.Routes, &RouteSpec{Name: "fallback", Pat: &Pattern{Segs: []Seg{{Pre: "*"}}}, Methods: AllMethods})
			}
			full = strings.ReplaceAll(full, "{tenant}", "acme") // the request spelling
			full = strings.ReplaceAll(full, `{tenant:\d+}`, "42")
			paths := []string{full, full + "/", full + "/create", full + "/7", full + "/create/edit", full + "/7/edit", full + "/7/x", "/other", full + "/edit", full + "/abc-1", full + "/abc-1/edit", full + "/create\u00a0", full + "\u3000", full + "/7/edit\u0085"}
			// (method tokens are case-sensitive: "get", "Post" ... are other methods, they reach no action)
			for _, path := range paths {
				for _, method := range append(append([]string{}, AllMethods...), "get", "Post", "delete", "head") {
					want, _ := refResolve(tb, cfg, method, path)
					rec, pv, panicked := Serve(router, NewReq(method, path))
					t.Count("resource.probes", 1)
					t.Tracef("%s %s -> status %d action %q body %q Allow %q events %v", method, path, rec.Status(), rec.Route, rec.Body.String(), rec.H.Get("Allow"), rec.Events)
					if panicked {
						t.Fail("servehttp-panics", "%s %s panicked: %v", method, path, pv)
						return
					}
					switch want.Stage {
					case "direct", "head-get":
						action := tb.Routes[want.Route].Name
						np, _ := RefNormalize(path, false) // (trailing slashes and white space are not part of the path)
						d, _ := tb.Routes[want.Route].Pat.RefMatch(np, 1)
						id := ""
						if len(d) > 0 {
							id = d[0].Params["id"]
						}
						wantBody := action + ":" + id
						if rec.Route != action || rec.Body.String() != wantBody || rec.Status() != 200 {
							sig := "wrong-action"
							if action == "create" && rec.Route == "show" {
								sig = "create-served-by-show"
							}
							t.Fail(sig, "%s{%s} base %q: %s %s must be answered by %s (body %q); observed action %q body %q status %d", ct.Name, maskDesc(ct.Mask), base, method, path, action, wantBody, rec.Route, rec.Body.String(), rec.Status())
							return
						}
						// the action ran on the controller instance that was handed to Resource for this mount
						wantInst := fmt.Sprintf("instance:mount%d", mi)
						if !hasEvent(rec.Events, wantInst) {
							t.Fail("action-of-another-instance", "%s{%s} base %q: %s %s was answered by %s, but not by the controller instance given to this Resource call (want event %q, events %v)", ct.Name, maskDesc(ct.Mask), base, method, path, action, wantInst, rec.Events)
							return
						}
						// marker middleware: exactly the answering action's (if the controller has Uses)
						var seen []string
						var groupEv []string
						for _, ev := range rec.Events {
							if strings.HasPrefix(ev, "mw:") {
								seen = append(seen, strings.TrimPrefix(ev, "mw:"))
							}
							if strings.HasPrefix(ev, "gmw:") {
								groupEv = append(groupEv, ev)
							}
						}
						wantSeen := ""
						if ct.WithUses {
							wantSeen = action
						}
						if strings.Join(seen, ",") != wantSeen {
							t.Fail("per-action-middleware", "%s{%s} base %q: %s %s answered by %s ran the Uses() middleware of [%s], expected [%s]", ct.Name, maskDesc(ct.Mask), base, method, path, action, strings.Join(seen, ","), wantSeen)
							return
						}
						if strings.Join(groupEv, ",") != strings.Join(wantGroupEv, ",") {
							t.Fail("group-middleware-differs", "%s{%s} base %q: %s %s answered by %s: group/resource middleware that ran: %v, expected %v (all events %v)", ct.Name, maskDesc(ct.Mask), base, method, path, action, groupEv, wantGroupEv, rec.Events)
							return
						}
						t.Count("resource.answered_by_action", 1)
					case "fallback":
						if rec.Route != "" || rec.Status() != 200 || rec.Body.String() != "fallback" {
							t.Fail("wrong-action", "%s{%s} base %q with HandleFallbackRoute and Any(\"/*\"): %s %s matches nothing in the documented table and must go to the fallback route; observed action %q status %d body %q", ct.Name, maskDesc(ct.Mask), base, method, path, rec.Route, rec.Status(), rec.Body.String())
							return
						}
						t.Count("resource.answered_by_fallback_route", 1)
					case "not-allowed":
						wantStatus := 405
						if method == "OPTIONS" {
							wantStatus = 200
						}
						if rec.Route != "" || rec.Status() != wantStatus || rec.H.Get("Allow") != strings.Join(want.Allowed, ", ") {
							t.Fail("wrong-405", "%s{%s} base %q: %s %s must be 'method not allowed' with Allow %q; observed action %q status %d Allow %q", ct.Name, maskDesc(ct.Mask), base, method, path, strings.Join(want.Allowed, ", "), rec.Route, rec.Status(), rec.H.Get("Allow"))
							return
						}
						t.Count("resource.answered_405", 1)
					default:
						if rec.Route != "" || rec.Status() != 404 {
							t.Fail("wrong-404", "%s{%s} base %q: %s %s matches nothing in the documented table; observed action %q status %d", ct.Name, maskDesc(ct.Mask), base, method, path, rec.Route, rec.Status())
							return
						}
						t.Count("resource.answered_404", 1)
					}
				}
			}
		}
	})
	e.RunCases("invalid-controllers", int64(len(c16Types)), 0, func(t *T) {
		ct := c16Types[t.Idx]
		t.Describe(func() any { return map[string]any{"controller": ct.Name} })
		if _, panicked := catch(func() { rux.New().Resource("/", ct.Value()) }); !panicked {
			t.Fail("non-pointer-controller-accepted", "Resource(\"/\", %s{}) (a struct by value) was accepted", ct.Name)
		}
		s := "a string"
		inst := reflect.ValueOf(ct.New("pp")) // *T
		pp := reflect.New(inst.Type())        // **T
		pp.Elem().Set(inst)
		if _, panicked := catch(func() { rux.New().Resource("/", pp.Interface()) }); !panicked {
			t.Fail("pointer-to-non-struct-accepted", "Resource(\"/\", <pointer to a pointer to %s>) did not panic: only a pointer to a struct is a controller", ct.Name)
		}
		if _, panicked := catch(func() { rux.New().Resource("/", &s) }); !panicked {
			t.Fail("non-struct-controller-accepted", "Resource(\"/\", &string) was accepted")
		}
		n := 5
		if _, panicked := catch(func() { rux.New().Resource("/", &n) }); !panicked {
			t.Fail("non-struct-controller-accepted", "Resource(\"/\", &int) was accepted")
		}
		t.Count("resource.invalid_rejected", 1)
		t.NonTrivial(ct.Name)
	})
	e.Require("resource.answered_by_action", 5000)
	e.Require("resource.answered_405", 5000)
	e.Require("resource.answered_404", 5000)
	e.Require("resource.invalid_rejected", 256)
}

func maskDesc(mask int) string {
	var s []string
	for i, a := range c16Actions {
		if mask>>i&1 == 1 {
			s = append(s, a)
		}
	}
	return strings.Join(s, ",")
}

func setDiff(want, got map[string]bool) string {
	var miss, extra []string
	for k := range want {
		if !got[k] {
			miss = append(miss, k)
		}
	}
	for k := range got {
		if !want[k] {
			extra = append(extra, k)
		}
	}
	if len(miss) == 0 && len(extra) == 0 {
		return ""
	}
	sort.Strings(miss)
	sort.Strings(extra)
	return fmt.Sprintf("missing %v, unexpected %v", miss, extra)
}
