package mon

import (
	"context"
	"encoding/xml"
	"errors"
	"fmt"
	"io"
	"net/http"
	"strings"
	"sync"
	"time"

	"github.com/gookit/rux"
	"github.com/gookit/rux/pkg/handlers"
)

func init() { Monitors["C09"] = runC09 }

var errPanicSentinel = errors.New("sentinel panic error")

type panicStruct struct {
	A int
	B string
}

func panicValue(kind string) any {
	switch kind {
	case "string":
		return "boom-string"
	case "error":
		return errPanicSentinel
	case "int":
		return 42
	case "abort":
		return http.ErrAbortHandler // the sentinel stock net/http handlers (e.g. ReverseProxy) panic with
	}
	return panicStruct{7, "x"}
}

// armed handlers: every MW of a C09/C10 program checks the request headers and
// panics when it is the designated site. No mutable global state: the same
// router serves armed and healthy requests.
func armPanics(p *Program) {
	arm := func(m *MW) {
		id := m.ID
		fire := func(phase string) func(c *rux.Context, rec *Rec) {
			return func(c *rux.Context, rec *Rec) {
				// X-Nest: "<site>|<method>|<path>": at that site (before its Next) a second
				// request is served by the same router while this one is in flight
				if nest := c.Req.Header.Get("X-Nest"); phase == "pre" && strings.HasPrefix(nest, id+"|") {
					f := strings.SplitN(nest, "|", 3)
					inner, ipv, ipanicked := Serve(c.Router(), NewReq(f[1], f[2]))
					if rec.Extra == nil {
						rec.Extra = map[string]any{}
					}
					rec.Extra["nested_rec"] = inner
					rec.Extra["nested_panicked"] = ipanicked
					rec.Extra["nested_pv"] = ipv
					rec.Extra["nested_same_ctx"] = inner.CtxPtr == c
					rec.Ev("nested-done")
				}
				if n := len(c.Errors); n > 0 && phase == "pre" {
					rec.Ev("errors-present(%s)=%d:%v", id, n, c.FirstError())
				}
				// X-Dirty: "<site>|action,action,...": context mutations performed at that site (C10)
				if d := c.Req.Header.Get("X-Dirty"); phase == "pre" && strings.HasPrefix(d, id+"|") {
					dirtyContext(c, rec, strings.Split(strings.TrimPrefix(d, id+"|"), ","))
				}
				if c.Req.Header.Get("X-Panic") != id+":"+phase {
					return
				}
				// (a middleware slice shared by nested groups puts the same handler into a chain twice:
				// the fault is injected once per request)
				if rec.Extra == nil {
					rec.Extra = map[string]any{}
				}
				if rec.Extra["panic_fired"] == true {
					return
				}
				rec.Extra["panic_fired"] = true
				switch c.Req.Header.Get("X-Panic-Pre") {
				case "status":
					c.SetStatus(202)
				case "write":
					_, _ = c.Resp.Write([]byte("pre"))
				case "adderror":
					c.AddError(errors.New("recorded before panic"))
				case "abort":
					c.Abort() // the chain is already aborted when the panic happens
				}
				rec.Ev("panic(%s,%s)", id, phase)
				panic(panicValue(c.Req.Header.Get("X-Panic-Val")))
			}
		}
		m.Pre, m.Post = fire("pre"), fire("post")
	}
	for _, m := range p.Globals {
		arm(m)
	}
	for _, rs := range p.Routes {
		for _, m := range rs.Chain {
			arm(m)
		}
		arm(rs.Main)
	}
	for _, m := range p.NotFoundH {
		arm(m)
	}
	for _, m := range p.NotAllowH {
		arm(m)
	}
}

type c09Req struct {
	Kind   string // route | not_found | not_allowed
	Method string
	Path   string
	Chain  []*MW // full expected chain (instrumented handlers only)
	// default terminal handler (not instrumented) at the end of the chain
	Terminal string // "" | "404" | "405"
	Allow    string
}

func (q c09Req) String() string { return q.Kind + " " + q.Method + " " + q.Path }

// c09Requests lists the requests a program supports.
func c09Requests(p *Program, t *T) []c09Req {
	var qs []c09Req
	for _, rs := range p.Routes {
		qs = append(qs, c09Req{Kind: "route", Method: rs.Method, Path: rs.RequestPath(t.R),
			Chain: append(append(append([]*MW{}, p.Globals...), rs.Chain...), rs.Main)})
	}
	nf := c09Req{Kind: "not_found", Method: "GET", Path: "/no/such/route", Chain: append(append([]*MW{}, p.Globals...), p.NotFoundH...)}
	if p.NotFoundH == nil {
		nf.Terminal = "404"
	}
	qs = append(qs, nf)
	if p.NotAllowed {
		rs := p.Routes[0]
		na := c09Req{Kind: "not_allowed", Method: "TRACE", Path: rs.RequestPath(t.R), Chain: append(append([]*MW{}, p.Globals...), p.NotAllowH...)}
		if p.NotAllowH == nil {
			na.Terminal = "405"
			na.Allow = rs.Method
		}
		qs = append(qs, na)
	}
	// HEAD for the first GET-only route (served through the GET route) and, with method-not-allowed
	// handling, an unrouted method for the very same path: whatever the HEAD request left behind in
	// the router must not show in the allowed set of the other
	for _, rs := range p.Routes {
		if rs.Method != "GET" {
			continue
		}
		path := rs.RequestPath(t.R)
		qs = append(qs, c09Req{Kind: "head_get", Method: "HEAD", Path: path,
			Chain: append(append(append([]*MW{}, p.Globals...), rs.Chain...), rs.Main)})
		if p.NotAllowed {
			na := c09Req{Kind: "not_allowed", Method: "TRACE", Path: path, Chain: append(append([]*MW{}, p.Globals...), p.NotAllowH...)}
			if p.NotAllowH == nil {
				na.Terminal = "405"
				na.Allow = rs.Method
			}
			qs = append(qs, na)
		}
		break
	}
	return qs
}

func runC09(e *Env) {
	e.Rule = "registration programs (as C04) whose handlers are armed by request headers: the panicking request designates one handler (any global/group/route middleware, main handler, custom NotFound/NotAllowed handler; before or after its Next()) or the OnError handler, a panic value (string, error, int, struct) and an action before the panic (nothing, SetStatus, body write = committed, AddError); OnPanic hook absent / does nothing / status only / status+body / echoes the recovered value; history = healthy requests, the panicking one, an overlapping pair (a second request served by the same router while the first is parked inside a handler) and 3..10 further requests of all kinds on the same router (same pooled contexts). Oracle: hook present => no escape, hook ran once with the same value under CTXRecoverResult, no handler entered after the panic, writer log == C08 state machine over (ops before the panic, hook ops, end of request); hook absent => the same value propagates; always: every later request's outcome equals the outcome on a freshly built twin router. Also the in-chain recover middleware pkg/handlers.PanicsHandler: no escape, 500, healthy afterwards. Non-trivial: every history (each contains a panic); distinct by (program, plan). A third of the hooks serve another request on the same router before they answer (it must get its own context and behave as on a twin); a quarter of the panicking requests carry a cancelled or expired request context. More than half of the routers have an OnError handler that answers with an error page (after a panic it must not run, whatever errors were collected before). A quarter of the routers put a middleware in front that replaces c.Resp by a pass-through writer and restores it after Next() without defer (the panic skips the restore; the next request on that context must not notice). Part behind-request-logger: pkg/handlers.ConsoleLogger first and a panic on one of its ignored paths (/health, /status): the logger must not act as a recovery middleware. Part panic-inside-a-render-helper: the value handed to c.JSON/JSONP/XML has an encoder that panics, or the router's Renderer panics half way through a page rendered with c.Render; the following responses of the same helper are unchanged. The hook keeps c.Data() and c.Copy() of the panicking request; after the history both still hold the recovered value. Part hook-status-sources: (a) a buffering middleware (status and body kept back in its own writer, handed on after Next() - which the panic skips) is in front and the hook answers with c.SetStatus(code) only: the committed status is the hook's; (b) a handler records a status outside 100..999 and writes, the underlying writer refuses the code by a panic as net/http does, the hook does not set a status: the panic still ends at the hook, once; follow-up requests unchanged in both."
	e.Assumptions = []string{
		"panic values are comparable (==)",
		"the statement's 'no later handler runs' is checked for the OnPanic hook only; PanicsHandler lets the outer loop continue by design and is only checked for containment, status and router health",
	}
	e.RunCases("histories", e.N(12000, 2000000), 0, c09Case)
	e.RunCases("redispatch-panic", e.N(2000, 200000), 0, c09RedispatchPanic)
	e.RunCases("behind-request-logger", e.N(300, 5000), 0, c09BehindLogger)
	e.Require("logger.checked", 250)
	e.RunCases("panic-inside-a-render-helper", e.N(300, 5000), 0, c09RenderPanic)
	e.Require("render_panic.checked", 250)
	e.RunCases("hook-status-sources", e.N(400, 8000), 0, c09HookStatus)
	e.Require("hook_status.checked", 300)
	e.Require("redispatch_panic.checked", 1000)
	e.Require("panic.in_global_mw", 200)
	e.Require("panic.in_route_mw", 200)
	e.Require("panic.in_main", 200)
	e.Require("panic.in_fallback_handler", 50)
	e.Require("panic.in_onerror", 50)
	e.Require("panic.after_next", 300)
	e.Require("hook.absent", 300)
	e.Require("hook.present", 1000)
	e.Require("panic.after_commit", 200)
	e.Require("followups.compared", 5000)
	e.Require("followups.overlapping_pairs", 1000)
}

// c09PassThrough is the writer a wrapping middleware installs: it hands everything on.
// Like a tracing or compressing writer it marks the response it worked on (a header, before the first
// thing it hands on).
type c09PassThrough struct {
	http.ResponseWriter
	tag    string
	marked bool
}

func (w *c09PassThrough) mark() {
	if !w.marked {
		w.marked = true
		w.Header().Add("X-Wrapped-For", w.tag)
	}
}
func (w *c09PassThrough) WriteHeader(code int)        { w.mark(); w.ResponseWriter.WriteHeader(code) }
func (w *c09PassThrough) Write(p []byte) (int, error) { w.mark(); return w.ResponseWriter.Write(p) }

// the stock request logger keeps its ignore list in a package-level slice that grows with every
// construction: one instance for the whole process, and only ignored paths are requested (it prints
// a line for every other request)
var (
	c09LoggerOnce sync.Once
	c09Logger     rux.HandlerFunc
)

// c09BehindLogger: pkg/handlers.ConsoleLogger is the first global middleware and a handler behind it
// panics on one of the logger's ignored paths (/health, /status). The logger is not a recovery
// middleware: with a hook the hook runs once, without one the panic reaches the caller unchanged.
func c09BehindLogger(t *T) {
	r := t.R
	c09LoggerOnce.Do(func() { c09Logger = handlers.ConsoleLogger() })
	path := pick(r, []string{"/health", "/status"})
	val := pick(r, []string{"string", "error", "int", "struct", "abort"})
	hook := chance(r, 2, 3)
	site := pick(r, []string{"main", "mw-before-next", "mw-after-next"})
	t.Describe(func() any {
		return map[string]any{"path": path, "panic_value": val, "OnPanic_hook": hook, "panic_site": site}
	})
	t.AutoSample()
	want := panicValue(val)
	build := func() *rux.Router {
		router := rux.New()
		router.Use(c09Logger)
		if hook {
			router.OnPanic = func(c *rux.Context) {
				rec := recOf(c)
				v, _ := c.Get(rux.CTXRecoverResult)
				rec.Ev("hook(%v)", v == want)
				c.SetStatus(500)
				_, _ = c.Resp.Write([]byte("hook-body"))
			}
		}
		router.GET(path, func(c *rux.Context) {
			recOf(c).Ev("enter(main)")
			if site == "main" && c.Req.Header.Get("X-Panic") != "" {
				recOf(c).Ev("panic(main)")
				panic(want)
			}
			c.WriteString("ok")
		}, func(c *rux.Context) {
			recOf(c).Ev("enter(mw)")
			if site == "mw-before-next" && c.Req.Header.Get("X-Panic") != "" {
				recOf(c).Ev("panic(mw)")
				panic(want)
			}
			c.Next()
			if site == "mw-after-next" && c.Req.Header.Get("X-Panic") != "" {
				recOf(c).Ev("panic(mw)")
				panic(want)
			}
		})
		return router
	}
	router, twin := build(), build()
	req := NewReq("GET", path)
	req.Header.Set("X-Panic", "1")
	rec, pv, escaped := Serve(router, req)
	t.Count("logger.checked", 1)
	t.NonTrivial(fmt.Sprint(path, val, hook, site))
	t.Tracef("escaped=%v value=%v events %v writer %s", escaped, pv, rec.Events, rec.CallLog())
	if hook {
		n := 0
		for _, ev := range rec.Events {
			if ev == "hook(true)" {
				n++
			}
		}
		if escaped {
			t.Fail("panic-escaped-with-hook", "ConsoleLogger first, panic in %s on %s: an OnPanic hook is installed but the panic escaped ServeHTTP: %#v", site, path, pv)
			return
		}
		if n != 1 {
			t.Fail("hook-count", "ConsoleLogger first, panic in %s on %s: the OnPanic hook ran %d times with the recovered value, expected exactly once (events %v)", site, path, n, rec.Events)
			return
		}
		wantBody := "hook-body"
		if site == "mw-after-next" {
			wantBody = "okhook-body" // the main handler had answered already: the status is out, the hook's bytes follow
		}
		wantStatus := 500
		if site == "mw-after-next" {
			wantStatus = 200
		}
		if rec.Status() != wantStatus || rec.Body.String() != wantBody || rec.NumWH() != 1 {
			t.Fail("response-after-panic", "ConsoleLogger first, panic in %s on %s: expected status %d body %q, the writer saw %s", site, path, wantStatus, wantBody, rec.CallLog())
			return
		}
	} else {
		if !escaped {
			t.Fail("panic-swallowed-without-hook", "ConsoleLogger first, panic in %s on %s, no OnPanic hook: the panic did not propagate to the caller of ServeHTTP (events %v, writer %s)", site, path, rec.Events, rec.CallLog())
			return
		}
		if pv != want {
			t.Fail("panic-value-changed", "the panic value reaching the caller is %#v, the handler panicked with %#v", pv, want)
			return
		}
	}
	// healthy afterwards
	for i := 0; i < 2; i++ {
		a, _, pa := Serve(router, NewReq("GET", path))
		b, _, pb := Serve(twin, NewReq("GET", path))
		if pa != pb || a.Outcome() != b.Outcome() {
			t.Fail("followup-differs", "after the panic behind ConsoleLogger, GET %s differs from a fresh twin: %s vs %s", path, a.Outcome(), b.Outcome())
			return
		}
	}
}

// c09Exploding is a value whose encoders panic (an application type with a broken MarshalJSON / MarshalXML).
type c09Exploding struct{ V string }

func (c09Exploding) MarshalJSON() ([]byte, error) {
	panic("MarshalJSON of the application's type panics")
}
func (c09Exploding) MarshalXML(*xml.Encoder, xml.StartElement) error {
	panic("MarshalXML of the application's type panics")
}

type c09Doc struct {
	XMLName xml.Name `xml:"doc" json:"-"`
	A       int      `xml:"a" json:"a"`
	S       string   `xml:"s" json:"s"`
}

// c09RenderPanic: the panic happens inside a response helper (JSON, JSONP, XML) while it encodes the handler's
// value. Hook or not, the requests that follow answer exactly as before the panic.
func c09RenderPanic(t *T) {
	r := t.R
	helper := pick(r, []string{"JSONP", "XML", "JSON", "Render"})
	hook := chance(r, 2, 3)
	t.Describe(func() any { return map[string]any{"helper": helper, "OnPanic_hook": hook} })
	t.AutoSample()
	router := rux.New()
	if hook {
		router.OnPanic = func(c *rux.Context) {
			recOf(c).Ev("hook")
			c.SetStatus(500)
		}
	}
	router.Renderer = c09PageRenderer{}
	render := func(c *rux.Context, v any) {
		switch helper {
		case "Render":
			// the router's template renderer; for the exploding value a template function panics mid page
			_ = c.Render(200, "page", v)
		case "JSONP":
			c.JSONP(200, "cb", v)
		case "XML":
			c.XML(200, v)
		default:
			c.JSON(200, v)
		}
	}
	router.GET("/bad", func(c *rux.Context) { recOf(c).Ev("enter(bad)"); render(c, c09Exploding{"x"}) })
	router.GET("/good", func(c *rux.Context) { recOf(c).Ev("enter(good)"); render(c, c09Doc{A: 1, S: "<ok>"}) })
	base, _, bp := Serve(router, NewReq("GET", "/good"))
	if bp {
		t.Fail("servehttp-panic", "%s of a plain value panicked", helper)
		return
	}
	for round := 0; round < 3; round++ {
		rec, pv, escaped := Serve(router, NewReq("GET", "/bad"))
		if hook && (escaped || !hasEvent(rec.Events, "hook")) {
			t.Fail("panic-escaped-with-hook", "a panic inside c.%s (the value's encoder panics): escaped=%v (%v), events %v", helper, escaped, pv, rec.Events)
			return
		}
		if !hook && !escaped {
			t.Fail("panic-swallowed-without-hook", "a panic inside c.%s, no OnPanic hook: it did not reach the caller of ServeHTTP", helper)
			return
		}
		for i := 0; i < 2; i++ {
			again, _, ap := Serve(router, NewReq("GET", "/good"))
			t.Count("render_panic.checked", 1)
			if ap || again.Outcome() != base.Outcome() {
				t.Fail("followup-differs", "after a panic inside c.%s (round %d), GET /good answers differently than before the panic:\n before: %s\n after:  %s", helper, round, base.Outcome(), again.Outcome())
				return
			}
		}
	}
	t.NonTrivial(fmt.Sprint(helper, hook))
}

// c09PageRenderer is the application's template engine: it panics half way through the page when
// the data is a c09Exploding value (a template function that panics).
type c09PageRenderer struct{}

func (c09PageRenderer) Render(w io.Writer, name string, data any, c *rux.Context) error {
	_, _ = io.WriteString(w, "<h1>"+name+"</h1>")
	if _, bad := data.(c09Exploding); bad {
		panic("template function failed")
	}
	_, _ = io.WriteString(w, fmt.Sprintf("<p>%v</p>", data))
	return nil
}

// c09HookStatus: where the status of the hook's answer comes from and goes to.
func c09HookStatus(t *T) {
	r := t.R
	mode := pick(r, []string{"buffering-middleware", "invalid-status-code"})
	code := pick(r, []int{500, 503, 418, 502})
	bad := pick(r, []int{42, 99, 1000, 4040, 7})
	pre := pick(r, []string{"", "status", "write"})
	hookKind := pick(r, []string{"nothing", "body"})
	t.Describe(func() any {
		return map[string]any{"mode": mode, "hook_status": code, "invalid_code": bad, "before_panic": pre, "hook(invalid-status-code mode)": hookKind}
	})
	t.AutoSample()
	router := rux.New()
	router.OnPanic = func(c *rux.Context) {
		recOf(c).Ev("hook")
		if mode == "buffering-middleware" {
			c.SetStatus(code)
		} else if hookKind == "body" {
			_, _ = c.Resp.Write([]byte("sorry"))
		}
	}
	if mode == "buffering-middleware" {
		router.Use(func(c *rux.Context) {
			orig := c.Resp
			buf := &c05Buffer{hdr: orig.Header()}
			c.Resp = buf
			c.Next()
			c.Resp = orig
			if buf.status > 0 {
				orig.WriteHeader(buf.status)
			}
			if buf.body.Len() > 0 {
				_, _ = orig.Write(buf.body.Bytes())
			}
		})
	}
	router.GET("/boom", func(c *rux.Context) {
		recOf(c).Ev("enter(boom)")
		if mode == "invalid-status-code" {
			c.SetStatus(bad)
			_, _ = c.Resp.Write([]byte("x")) // the underlying writer refuses the code
			return
		}
		switch pre {
		case "status":
			c.SetStatus(201)
		case "write":
			_, _ = c.Resp.Write([]byte("half a page"))
		}
		panic("boom")
	})
	router.GET("/ok", func(c *rux.Context) { recOf(c).Ev("enter(ok)"); c.Text(200, "ok") })
	serve := func(path string) (*Rec, any, bool) {
		rec := NewRec()
		rec.StrictCodes = true
		req := NewReq("GET", path)
		pv, escaped := catch(func() { router.ServeHTTP(rec, req) })
		return rec, pv, escaped
	}
	base, _, bp := serve("/ok")
	if bp {
		t.Fail("servehttp-panic", "GET /ok panicked")
		return
	}
	for round := 0; round < 3; round++ {
		rec, pv, escaped := serve("/boom")
		t.Count("hook_status.checked", 1)
		hooks := 0
		for _, ev := range rec.Events {
			if ev == "hook" {
				hooks++
			}
		}
		if escaped || hooks != 1 {
			t.Fail("panic-escaped-with-hook", "%s: a panic with an OnPanic hook installed: escaped=%v (%v), the hook ran %d times; events %v", mode, escaped, pv, hooks, rec.Events)
			return
		}
		if mode == "buffering-middleware" && rec.Status() != code {
			t.Fail("hook-status-not-committed", "a buffering middleware replaced c.Resp, a handler below it panicked (before the panic: %q), the hook answered c.SetStatus(%d): committed status %d; writer calls %s", pre, code, rec.Status(), rec.CallLog())
			return
		}
		again, _, ap := serve("/ok")
		if ap || again.Outcome() != base.Outcome() {
			t.Fail("followup-differs", "%s: after the panic (round %d), GET /ok answers differently than before:\n before: %s\n after:  %s", mode, round, base.Outcome(), again.Outcome())
			return
		}
	}
	t.NonTrivial(fmt.Sprint(mode, code, bad, pre, hookKind))
}

// c09RedispatchPanic: the panicking chain was reached through an internal re-dispatch
// (Router.HandleContext called by a handler of another chain). The hook runs once, no later
// handler of either chain starts, the handlers of the calling chain that were suspended in
// Next() resume, and the response is the hook's.
func c09RedispatchPanic(t *T) {
	r := t.R
	nGlobal, nOuter, nInner := r.IntN(3), r.IntN(5), 1+r.IntN(5)
	mk := func(prefix string, n int) []*MW {
		out := make([]*MW, n)
		for i := range out {
			out[i] = &MW{ID: fmt.Sprintf("%s%d", prefix, i), Nexts: 1}
		}
		return out
	}
	globals := mk("G", nGlobal)
	outer := append(mk("o", nOuter), &MW{ID: "omain", Nexts: 1, Main: true})
	inner := append(mk("i", nInner-1), &MW{ID: "imain", Nexts: 1, Main: true})
	j, pIdx := r.IntN(len(outer)), r.IntN(len(inner))
	val := pick(r, []string{"string", "error", "int"})
	t.Describe(func() any {
		return map[string]any{"global": mwList(globals), "outer_chain(/outer)": mwList(outer), "inner_chain(/inner)": mwList(inner),
			"redispatching_handler": outer[j].ID, "panicking_handler": inner[pIdx].ID, "panic_value": val}
	})
	outer[j].Pre = func(c *rux.Context, rec *Rec) {
		if c.Req.URL.Path == "/outer" {
			c.Req.URL.Path = "/inner"
			rec.Ev("redispatch(%s)", outer[j].ID)
			c.Router().HandleContext(c)
			rec.Ev("redispatch-returned(%s)", outer[j].ID)
		}
	}
	inner[pIdx].Pre = func(c *rux.Context, rec *Rec) {
		rec.Ev("panic(%s)", inner[pIdx].ID)
		panic(panicValue(val))
	}
	router := rux.New()
	router.Use(handlersOf(globals)...)
	router.GET("/outer", outer[len(outer)-1].Handler(), handlersOf(outer[:len(outer)-1])...)
	router.GET("/inner", inner[len(inner)-1].Handler(), handlersOf(inner[:len(inner)-1])...)
	hookRuns := 0
	router.OnPanic = func(c *rux.Context) {
		hookRuns++
		recOf(c).Ev("hook")
		c.SetStatus(500)
	}
	t.AutoSample()
	var want []string
	pre := append(append([]*MW{}, globals...), outer[:j]...)
	for _, m := range pre {
		want = append(want, "enter("+m.ID+")")
	}
	want = append(want, "enter("+outer[j].ID+")", "redispatch("+outer[j].ID+")")
	for _, m := range append(append([]*MW{}, globals...), inner[:pIdx+1]...) {
		want = append(want, "enter("+m.ID+")")
	}
	want = append(want, "panic("+inner[pIdx].ID+")", "hook", "redispatch-returned("+outer[j].ID+")", "leave("+outer[j].ID+")")
	for i := len(pre) - 1; i >= 0; i-- {
		want = append(want, "leave("+pre[i].ID+")")
	}
	t.NonTrivial(fmt.Sprint(mwList(globals), mwList(outer), mwList(inner), j, pIdx))
	rec, pv, escaped := Serve(router, NewReq("GET", "/outer"))
	t.Count("redispatch_panic.checked", 1)
	t.Tracef("escaped=%v (%v) hook runs %d status %d trace %s", escaped, pv, hookRuns, rec.Status(), strings.Join(rec.Events, " "))
	if escaped {
		t.Fail("panic-escaped-with-hook", "re-dispatch by %s, panic in %s of the re-dispatched chain: an OnPanic hook is installed but a panic escaped ServeHTTP: %v (trace %s)", outer[j].ID, inner[pIdx].ID, pv, strings.Join(rec.Events, " "))
		return
	}
	if hookRuns != 1 {
		t.Fail("hook-count", "re-dispatch by %s, panic in %s: the OnPanic hook ran %d times, expected exactly once", outer[j].ID, inner[pIdx].ID, hookRuns)
		return
	}
	if !eventsEqual(want, rec.Events) {
		t.Fail("handler-ran-after-panic:"+classifyTrace(want, rec.Events), "re-dispatch by %s (chain of %d), panic in %s (position %d of a chain of %d):\n expected trace: %s\n observed trace: %s", outer[j].ID, nGlobal+len(outer), inner[pIdx].ID, nGlobal+pIdx, nGlobal+len(inner), strings.Join(want, " "), strings.Join(rec.Events, " "))
		return
	}
	if rec.Status() != 500 || rec.NumWH() != 1 {
		t.Fail("response-after-panic", "re-dispatch by %s, panic in %s: the hook set status 500; the writer saw: %s", outer[j].ID, inner[pIdx].ID, rec.CallLog())
	}
}

func c09Case(t *T) {
	r := t.R
	g := &progGen{maxDepth: 3, dynamic: true}
	p := GenProgram(r, g)
	armPanics(p)
	hookKind := pick(r, []string{"absent", "nothing", "status", "status+body", "echo", "status", "status+body", "abort-with-status"})
	usePanicsHandler := hookKind == "absent" && chance(r, 1, 4)
	onErrorPanics := chance(r, 1, 8)
	onErrorInstalled := onErrorPanics || chance(r, 1, 2) // an OnError handler that answers with an error page
	// pkg/handlers.Timeout as the outermost middleware (its own deadline never passes; a request whose
	// context is already past its deadline makes it record 504 while the panic unwinds)
	withTimeout := hookKind != "absent" && chance(r, 1, 4)
	withRespWrapper := chance(r, 1, 4)
	if withRespWrapper {
		t.Count("panic.behind_resp_wrapping_middleware", 1)
	}
	var plan, histDesc []string
	t.Describe(func() any {
		d := p.Describe().(map[string]any)
		d["hook"] = hookKind
		d["PanicsHandler_first"] = usePanicsHandler
		d["OnError_panics"] = onErrorPanics
		d["OnError_handler_installed"] = onErrorInstalled
		d["Timeout_middleware_first"] = withTimeout
		d["Resp_wrapping_middleware_first(restores c.Resp after Next, no defer)"] = withRespWrapper
		d["plan"] = plan
		d["history"] = histDesc
		return d
	})

	build := func() *rux.Router {
		var router *rux.Router
		router = p.Build(func(rt *rux.Router) {
			if withRespWrapper {
				// a middleware that puts its own writer into c.Resp for the time of the request and
				// takes it out again after Next() - not in a defer, a panic below skips that
				rt.Use(func(c *rux.Context) {
					orig := c.Resp
					c.Resp = &c09PassThrough{ResponseWriter: orig, tag: c.Req.Method + " " + c.Req.URL.Path}
					c.Next()
					c.Resp = orig
				})
			}
			if usePanicsHandler {
				rt.Use(handlers.PanicsHandler())
			}
			if withTimeout {
				rt.Use(handlers.Timeout(time.Hour))
			}
		})
		if onErrorInstalled {
			router.OnError = func(c *rux.Context) {
				if onErrorPanics && c.Req.Header.Get("X-Panic") == "onerror" {
					recOf(c).Ev("panic(onerror)")
					panic(panicValue(c.Req.Header.Get("X-Panic-Val")))
				}
				// the application's error page: it reports the collected errors
				recOf(c).Ev("onerror-handler(%d errors)", len(c.Errors))
				c.SetStatus(400)
				_, _ = c.Resp.Write([]byte("errors-reported"))
			}
		}
		switch hookKind {
		case "absent":
		default:
			kind := hookKind
			router.OnPanic = func(c *rux.Context) {
				rec := recOf(c)
				rec.Ev("hook")
				if rec.Extra == nil {
					rec.Extra = map[string]any{}
				}
				n, _ := rec.Extra["hook_count"].(int)
				rec.Extra["hook_count"] = n + 1
				v, ok := c.Get(rux.CTXRecoverResult)
				rec.Extra["recovered"] = v
				rec.Extra["recovered_ok"] = ok
				// the hook hands the request's data to an error reporter that works on it later
				rec.Extra["hook_kept_data"] = c.Data()
				rec.Extra["hook_kept_copy"] = c.Copy()
				if nest := c.Req.Header.Get("X-Hook-Nest"); nest != "" {
					// another request is served by the same router while the hook is still working
					parts := strings.SplitN(nest, "|", 2)
					nrec, _, npan := Serve(c.Router(), NewReq(parts[0], parts[1]))
					rec.Extra["hook_nested_rec"] = nrec
					rec.Extra["hook_nested_panicked"] = npan
					rec.Extra["hook_nested_same_ctx"] = nrec.CtxPtr != nil && nrec.CtxPtr == c
				}
				switch kind {
				case "status":
					c.SetStatus(500)
				case "status+body":
					c.SetStatus(500)
					_, _ = c.Resp.Write([]byte("hook-body"))
				case "echo":
					c.SetStatus(503)
					_, _ = c.Resp.Write([]byte(fmt.Sprint(v)))
				case "abort-with-status":
					c.AbortWithStatus(500, "hook-says-no") // the usual way a hook answers
				}
			}
		}
		return router
	}
	var router, twin *rux.Router
	if pv, panicked := catch(func() { router, twin = build(), build() }); panicked {
		t.Fail("registration-panic", "a valid registration program panicked: %v", pv)
		return
	}
	t.AutoSample()
	reqs := c09Requests(p, t)

	send := func(rt *rux.Router, q c09Req, hdr map[string]string) (*Rec, any, bool) {
		req := NewReq(q.Method, q.Path)
		for k, v := range hdr {
			req.Header.Set(k, v)
		}
		switch hdr["X-Req-Context"] {
		case "canceled": // the client went away: the request's own context is canceled already
			cctx, cancel := context.WithCancel(req.Context())
			cancel()
			req = req.WithContext(cctx)
		case "deadline-passed":
			dctx, cancel := context.WithDeadline(req.Context(), time.Unix(1, 0))
			defer cancel()
			req = req.WithContext(dctx)
		}
		return Serve(rt, req)
	}
	// healthy prefix
	for i, n := 0, r.IntN(4); i < n; i++ {
		q := pick(r, reqs)
		histDesc = append(histDesc, q.String())
		rec1, _, p1 := send(router, q, nil)
		rec2, _, p2 := send(twin, q, nil)
		if p1 || p2 || rec1.Outcome() != rec2.Outcome() {
			t.Fail("healthy-prefix-differs", "healthy request %s differs between two identical routers: %s vs %s", q, rec1.Outcome(), rec2.Outcome())
			return
		}
	}

	// the panicking request
	q := pick(r, reqs)
	val := pick(r, []string{"string", "error", "int", "struct", "abort"})
	preAct := pick(r, []string{"", "", "status", "write", "adderror", "abort"})
	hdr := map[string]string{"X-Panic-Val": val, "X-Panic-Pre": preAct}
	var site *MW
	phase := "pre"
	ranTerminal := false
	if onErrorPanics && chance(r, 2, 3) && len(q.Chain) > 0 {
		// a handler records an error, then the OnError handler panics after the chain
		hdr["X-Panic"] = "onerror"
		hdr["X-AddError"] = "1"
		// reuse the arming: designate a site that only adds the error (no panic) by a separate header
		t.Count("panic.in_onerror", 1)
	} else {
		if len(q.Chain) == 0 {
			// only a default terminal handler: nothing of ours can panic there
			q = reqs[0]
		}
		site = pick(r, q.Chain)
		if chance(r, 1, 3) {
			phase = "post"
		}
		hdr["X-Panic"] = site.ID + ":" + phase
		ranTerminal = phase == "post" && site.Nexts >= 1
		switch {
		case site.Main:
			t.Count("panic.in_main", 1)
		case strings.HasPrefix(site.ID, "g"):
			t.Count("panic.in_global_mw", 1)
		case strings.HasPrefix(site.ID, "nf") || strings.HasPrefix(site.ID, "na"):
			t.Count("panic.in_fallback_handler", 1)
		default:
			t.Count("panic.in_route_mw", 1)
		}
		if phase == "post" {
			t.Count("panic.after_next", 1)
		}
	}
	if chance(r, 1, 4) {
		hdr["X-Req-Context"] = pick(r, []string{"canceled", "deadline-passed"})
		t.Count("panic.request_context_done", 1)
	}
	var hookNested *c09Req
	if hookKind != "absent" && chance(r, 1, 3) {
		nq := pick(r, reqs)
		hookNested = &nq
		hdr["X-Hook-Nest"] = nq.Method + "|" + nq.Path
	}
	plan = []string{"request: " + q.String(), fmt.Sprintf("headers: %v", hdr)}
	histDesc = append(histDesc, "PANIC "+q.String())
	t.NonTrivial(fmt.Sprint(p.Describe(), hookKind, plan))
	want := panicValue(val)

	if hdr["X-Panic"] == "onerror" {
		// needs a handler that adds an error: install through the first chain handler's Pre
		first := q.Chain[0]
		oldPre := first.Pre
		first.Pre = func(c *rux.Context, rec *Rec) {
			if c.Req.Header.Get("X-AddError") == "1" {
				c.AddError(errors.New("recorded error"))
			}
			if oldPre != nil {
				oldPre(c, rec)
			}
		}
	}

	rec, pv, escaped := send(router, q, hdr)
	defer func() {
		// after all later requests: what the hook kept of the panicking request is still that request's
		if m, _ := rec.Extra["hook_kept_data"].(map[string]any); m != nil {
			t.Count("hook.kept_data_rechecked", 1)
			if m[rux.CTXRecoverResult] != want {
				t.Fail("data-kept-by-the-hook-changed-after-later-requests", "the OnPanic hook kept c.Data() of the panicking request (%v); after the following requests that map holds %#v under CTXRecoverResult, the handler had panicked with %#v (map now: %v)", plan, m[rux.CTXRecoverResult], want, m)
				return
			}
		}
		if cp, _ := rec.Extra["hook_kept_copy"].(*rux.Context); cp != nil {
			if v, _ := cp.Get(rux.CTXRecoverResult); v != want {
				t.Fail("data-kept-by-the-hook-changed-after-later-requests", "the OnPanic hook kept c.Copy() of the panicking request (%v); after the following requests the copy holds %#v under CTXRecoverResult, the handler had panicked with %#v", plan, v, want)
			}
		}
	}()
	t.Tracef("panicking request %s %v: escaped=%v value=%v, writer [%s] body %q, events %v", q, hdr, escaped, pv, rec.CallLog(), rec.Body.String(), rec.Events)
	sawPanic := false
	for _, ev := range rec.Events {
		if strings.HasPrefix(ev, "panic(") {
			sawPanic = true
		}
	}
	if !sawPanic {
		t.Fail("harness-panic-site-not-reached", "the designated panic site was not reached: %v events %v", plan, rec.Events)
		return
	}

	switch {
	case usePanicsHandler && hdr["X-Panic"] != "onerror":
		t.Count("hook.panics_handler", 1)
		if escaped {
			t.Fail("panicshandler-escape", "PanicsHandler is the first global middleware but the panic escaped ServeHTTP: %v", pv)
			return
		}
		// PanicsHandler records 500 and lets the dispatcher's loop continue with the
		// handlers that have not run yet (outside the statement): only containment and
		// "exactly one header commit" are checked here; 500 when nothing else could have
		// touched the status (panic in the last handler of the chain, nothing committed).
		if rec.NumWH() != 1 {
			t.Fail("panicshandler-commits", "PanicsHandler recovered the panic; expected exactly one WriteHeader, writer saw: %s", rec.CallLog())
			return
		}
		if site != nil && site == q.Chain[len(q.Chain)-1] && q.Terminal == "" && preAct == "" && rec.Status() != 500 {
			t.Fail("panicshandler-status", "PanicsHandler recovered a panic of the last handler, nothing was written: expected status 500, writer saw: %s", rec.CallLog())
			return
		}
	case hookKind == "absent":
		// (also: PanicsHandler installed but the panic happens in OnError, after the chain)
		t.Count("hook.absent", 1)
		if !escaped {
			t.Fail("panic-swallowed-without-hook", "no OnPanic hook is installed but the panic did not propagate to the caller of ServeHTTP (%v)", plan)
			return
		}
		if pv != want {
			t.Fail("panic-value-changed", "the panic value reaching the caller is %#v, the handler panicked with %#v", pv, want)
			return
		}
	default:
		t.Count("hook.present", 1)
		if escaped {
			t.Fail("panic-escaped-with-hook", "an OnPanic hook is installed but the panic escaped ServeHTTP: %#v (%v)", pv, plan)
			return
		}
		if n, _ := rec.Extra["hook_count"].(int); n != 1 {
			t.Fail("hook-count", "the OnPanic hook ran %d times, expected exactly once (%v)", n, plan)
			return
		}
		if ok, _ := rec.Extra["recovered_ok"].(bool); !ok || rec.Extra["recovered"] != want {
			t.Fail("recovered-value", "the hook found %#v under CTXRecoverResult, the handler panicked with %#v", rec.Extra["recovered"], want)
			return
		}
		// no handler entered after the panic, nothing after the hook
		afterPanic := false
		for _, ev := range rec.Events {
			if strings.HasPrefix(ev, "panic(") {
				afterPanic = true
				continue
			}
			if afterPanic && ev != "hook" {
				t.Fail("handler-ran-after-panic", "events after the panic: %v (%v)", rec.Events, plan)
				return
			}
		}
		// a request served during the hook got its own context and behaves as on a fresh twin
		if hookNested != nil {
			t.Count("hook.request_served_during_hook", 1)
			nrec, _ := rec.Extra["hook_nested_rec"].(*Rec)
			if same, _ := rec.Extra["hook_nested_same_ctx"].(bool); same {
				t.Fail("context-released-before-hook-finished", "request %s was served while the OnPanic hook of %s was still running and was handed the very same *Context (%v)", *hookNested, q, plan)
				return
			}
			trec, _, tp := send(twin, *hookNested, nil)
			if np, _ := rec.Extra["hook_nested_panicked"].(bool); nrec == nil || np != tp || nrec.Outcome() != trec.Outcome() {
				t.Fail("request-during-hook-differs", "request %s served while the OnPanic hook of %s was running differs from a fresh twin:\n during hook: %s\n twin: %s", *hookNested, q, outcomeOf(nrec), trec.Outcome())
				return
			}
		}
		// the response: C08 state machine over (ops before the panic, hook ops, end of request)
		m := &respModel{method: q.Method}
		if hdr["X-Panic"] == "onerror" || ranTerminal {
			switch q.Terminal {
			case "404":
				m.step(respOp{Kind: "error", Code: 404, Data: "404 page not found"})
			case "405":
				m.step(respOp{Kind: "error", Code: 405, Data: "Method not allowed"})
			}
		}
		switch preAct {
		case "status":
			if hdr["X-Panic"] != "onerror" {
				m.step(respOp{Kind: "status", Code: 202})
			}
		case "write":
			if hdr["X-Panic"] != "onerror" {
				m.step(respOp{Kind: "write", Data: "pre"})
				t.Count("panic.after_commit", 1)
			}
		}
		if withTimeout && hdr["X-Req-Context"] == "deadline-passed" {
			// the deadline middleware notices the expired context while the panic (or the chain) unwinds
			// and records 504 - a status setting like any other, the hook answers after it
			m.step(respOp{Kind: "status", Code: 504})
			t.Count("panic.behind_timeout_with_expired_context", 1)
		}
		switch hookKind {
		case "status":
			m.step(respOp{Kind: "status", Code: 500})
		case "status+body":
			m.step(respOp{Kind: "status", Code: 500})
			m.step(respOp{Kind: "write", Data: "hook-body"})
		case "echo":
			m.step(respOp{Kind: "status", Code: 503})
			m.step(respOp{Kind: "write", Data: fmt.Sprint(want)})
		case "abort-with-status":
			m.step(respOp{Kind: "error", Code: 500, Data: "hook-says-no"})
		}
		m.commit()
		if !callsEqual(m.log, rec.Calls) || rec.Body.String() != string(m.body) {
			sig := "response-after-panic"
			if rec.NumWH() == 0 {
				sig = "response-never-committed-after-panic"
			}
			t.Fail(sig, "hook %q, plan %v\n expected at the writer: %s body %q\n observed at the writer: %s body %q", hookKind, plan, callLog(m.log), m.body, rec.CallLog(), rec.Body.String())
			return
		}
	}

	// two overlapping follow-up requests (the second is served while the first is
	// parked inside a handler): they must not be handed the same pooled context
	// and must behave as on a fresh twin
	{
		outer, inner := pick(r, reqs), pick(r, reqs)
		if len(outer.Chain) > 0 {
			site := pick(r, outer.Chain)
			nh := map[string]string{"X-Nest": site.ID + "|" + inner.Method + "|" + inner.Path}
			histDesc = append(histDesc, fmt.Sprintf("OVERLAP %s [at %s: %s]", outer, site.ID, inner))
			rec1, _, p1 := send(router, outer, nh)
			rec2, _, p2 := send(twin, outer, nh)
			t.Count("followups.overlapping_pairs", 1)
			if same, _ := rec1.Extra["nested_same_ctx"].(bool); same {
				t.Fail("overlapping-requests-share-context", "after the panic, two requests in flight at the same time (%s, and %s served inside it) were handed the same pooled *Context", outer, inner)
				return
			}
			in1, _ := rec1.Extra["nested_rec"].(*Rec)
			in2, _ := rec2.Extra["nested_rec"].(*Rec)
			if p1 != p2 || rec1.Outcome() != rec2.Outcome() || (in1 != nil && in2 != nil && in1.Outcome() != in2.Outcome()) {
				t.Fail("overlapping-followup-differs", "after the panic, the overlapping pair (%s with %s served inside it) behaves differently than on a fresh identical router:\n after panic: %s || inner %s\n fresh:       %s || inner %s", outer, inner, rec1.Outcome(), outcomeOf(in1), rec2.Outcome(), outcomeOf(in2))
				return
			}
		}
	}

	// the router stays healthy: later requests behave as on a fresh twin
	for i, n := 0, 3+r.IntN(8); i < n; i++ {
		fq := pick(r, reqs)
		if i == 0 {
			fq = q // the same request, unarmed, right after the panic (same pooled context)
		}
		histDesc = append(histDesc, fq.String())
		rec1, pv1, p1 := send(router, fq, nil)
		rec2, _, p2 := send(twin, fq, nil)
		t.Count("followups.compared", 1)
		t.Tracef("follow-up %s: %s", fq, rec1.Outcome())
		if p1 != p2 {
			t.Fail("followup-panics", "after the panic, request %s panicked=%v (%v); on a fresh identical router panicked=%v", fq, p1, pv1, p2)
			return
		}
		if rec1.Outcome() != rec2.Outcome() {
			t.Fail("followup-differs", "after the panic, request #%d %s behaves differently than on a fresh identical router:\n after panic: %s\n fresh:       %s", i+1, fq, rec1.Outcome(), rec2.Outcome())
			return
		}
	}
}

func outcomeOf(r *Rec) string {
	if r == nil {
		return "<none>"
	}
	return r.Outcome()
}
