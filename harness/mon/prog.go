package mon

import (
	"fmt"
	"math/rand/v2"
	"strings"

	"github.com/gookit/rux"
)

// ---------------------------------------------------------------------------
// Registration programs: an AST of Use / Group / Route / NotFound / NotAllowed
// statements, an interpreter that executes it on a real router, and a reference
// scope model that computes, for every route, the path and handler chain the
// documentation promises. Shared by C04, C05, C09, C10, C12.
// ---------------------------------------------------------------------------

// MW describes one handler (middleware or main handler) and its behaviour.
type MW struct {
	ID    string
	Nexts int // how many times it calls Next(): 0, 1 or 2
	Main  bool

	// optional behaviours used by C05 / C08 / C09 / C10 (nil = plain)
	Pre  func(c *rux.Context, rec *Rec) // runs after enter, before Next
	Post func(c *rux.Context, rec *Rec) // runs after Next, before leave
}

func (m *MW) String() string {
	return fmt.Sprintf("%s(next x%d)", m.ID, m.Nexts)
}

// Handler builds the rux handler for this description. Not inlined on purpose: every
// middleware of a program is then a closure of one and the same function literal (as with
// an application's logger(name) factory), wherever it is created.
//
//go:noinline
func (m *MW) Handler() rux.HandlerFunc {
	return func(c *rux.Context) {
		rec := recOf(c)
		rec.Ev("enter(%s)", m.ID)
		if rec.CtxPtr == nil {
			rec.CtxPtr = c
		}
		if rec.Extra != nil && rec.Extra["want_snapshot"] == true && rec.Extra["snapshot"] == nil {
			// C10: the first instrumented handler of the request records how it finds the context
			lateWrites(rec)
			rec.Extra["snapshot"] = ctxSnapshot(c, rec)
		}
		if m.Pre != nil {
			m.Pre(c, rec)
		}
		for i := 0; i < m.Nexts; i++ {
			c.Next()
		}
		if m.Post != nil {
			m.Post(c, rec)
		}
		rec.Ev("leave(%s)", m.ID)
	}
}

func handlersOf(ms []*MW) []rux.HandlerFunc {
	hs := make([]rux.HandlerFunc, len(ms))
	for i, m := range ms {
		hs[i] = m.Handler()
	}
	return hs
}

type Stmt interface{ stmt() }

type UseStmt struct{ MW []*MW }

type GroupStmt struct {
	Prefix string
	MW     []*MW
	Body   []Stmt
	// Via: "" plain Group, "controller" = Router.Controller(prefix, ctl, mw...)
	Via string
	// SharedMW > 0: MW is the application's own slice variable #SharedMW, passed as mws... to several groups
	SharedMW int
}

type RouteStmt struct {
	Name       string
	Method     string
	Path       string // as written in the registration call (relative to the group)
	Variadic   []*MW  // middleware passed to GET(...)
	LaterUse   [][]*MW
	LaterAtEnd bool   // route.Use calls happen after the whole program ran (else right away)
	Style      string // "" = r.GET/POST/...(path, main, mw...); "any" = r.Any(path, main, mw...); "prepared" = NewRoute(...).Use(mw...) then r.AddRoute; "attach" = NewRoute(...).Use(mw...).AttachTo(r)
	Main       *MW
	Probe      bool // C12 probe route

	// filled by the model
	FullPath string
	Chain    []*MW // group chain + variadic + later use (without globals and main)
	Depth    int
	route    *rux.Route
	// observations taken right after registration
	pathAtReg     string
	handlersAtReg int
}

type NotFoundStmt struct{ H []*MW }
type NotAllowedStmt struct{ H []*MW }

func (UseStmt) stmt()        {}
func (*GroupStmt) stmt()     {}
func (*RouteStmt) stmt()     {}
func (NotFoundStmt) stmt()   {}
func (NotAllowedStmt) stmt() {}

// Program is a registration program plus router options.
type Program struct {
	Body       []Stmt
	NotAllowed bool          // HandleMethodNotAllowed
	CacheCap   int           // -1 off
	PanicHook  bool          // install an OnPanic hook (status 500)
	Shared     map[int][]*MW // the application's middleware slice variables (passed whole or as mws[:k]... to groups)
	Strict     bool          // StrictLastSlash

	// computed by Model()
	Globals         []*MW
	Routes          []*RouteStmt
	NotFoundH       []*MW
	NotAllowH       []*MW
	MaxDepth        int
	Siblings        bool
	UseInGroup      bool
	UseAfter        bool // a top-level Use after some route was registered
	RouteAfterGroup bool
}

func mwList(ms []*MW) string {
	ss := make([]string, len(ms))
	for i, m := range ms {
		ss[i] = m.String()
	}
	return "[" + strings.Join(ss, " ") + "]"
}

func describeStmts(body []Stmt, indent string, out *[]string) {
	for _, s := range body {
		switch x := s.(type) {
		case UseStmt:
			*out = append(*out, fmt.Sprintf("%sUse%s", indent, mwList(x.MW)))
		case *GroupStmt:
			kind := "Group"
			if x.Via != "" {
				kind = "Controller"
			}
			shared := ""
			if x.SharedMW > 0 {
				shared = fmt.Sprintf(" (the application's slice variable #%d, spread with ...)", x.SharedMW)
			}
			*out = append(*out, fmt.Sprintf("%s%s(%q, mw=%s%s) {", indent, kind, x.Prefix, mwList(x.MW), shared))
			describeStmts(x.Body, indent+"  ", out)
			*out = append(*out, indent+"}")
		case *RouteStmt:
			later := ""
			for _, l := range x.LaterUse {
				later += " .Use" + mwList(l)
			}
			if later != "" && x.LaterAtEnd {
				later += " (at program end)"
			}
			style := x.Method
			switch x.Style {
			case "any":
				style = "Any"
			case "prepared":
				style = "AddRoute(NewRoute+Use) " + x.Method
			case "attach":
				style = "NewRoute+Use.AttachTo " + x.Method
			}
			*out = append(*out, fmt.Sprintf("%s%s = %s(%q, main=%s, mw=%s)%s", indent, x.Name, style, x.Path, x.Main.String(), mwList(x.Variadic), later))
		case NotFoundStmt:
			*out = append(*out, fmt.Sprintf("%sNotFound%s", indent, mwList(x.H)))
		case NotAllowedStmt:
			*out = append(*out, fmt.Sprintf("%sNotAllowed%s", indent, mwList(x.H)))
		}
	}
}

func (p *Program) Describe() any {
	var out []string
	describeStmts(p.Body, "", &out)
	return map[string]any{"HandleMethodNotAllowed": p.NotAllowed, "cache_capacity": p.CacheCap, "OnPanic_hook": p.PanicHook, "StrictLastSlash": p.Strict, "program": out}
}

// ----- reference scope model -----

type scope struct {
	prefix   string
	handlers []*MW
}

func normPrefix(p string) string {
	n, _ := RefNormalize(p, false)
	return n
}

// Model walks the program with its own scope stack and fills, per route, the
// expected full path and chain; it also collects globals and fallback handlers.
func (p *Program) Model() {
	p.Globals, p.Routes, p.NotFoundH, p.NotAllowH = nil, nil, nil, nil
	seenRoute := false
	var walk func(body []Stmt, sc *scope, depth int)
	walk = func(body []Stmt, sc *scope, depth int) {
		groupsHere := 0
		groupReturned := false
		for _, s := range body {
			switch x := s.(type) {
			case UseStmt:
				if sc == nil {
					p.Globals = append(p.Globals, x.MW...)
					if seenRoute {
						p.UseAfter = true
					}
				} else {
					sc.handlers = append(sc.handlers[:len(sc.handlers):len(sc.handlers)], x.MW...)
					p.UseInGroup = true
				}
			case *GroupStmt:
				groupsHere++
				if groupsHere >= 2 {
					p.Siblings = true
				}
				inner := &scope{prefix: normPrefix(x.Prefix)}
				if sc != nil {
					inner.prefix = sc.prefix + normPrefix(x.Prefix)
					inner.handlers = append(inner.handlers, sc.handlers...)
				}
				inner.handlers = append(inner.handlers, x.MW...)
				if depth+1 > p.MaxDepth {
					p.MaxDepth = depth + 1
				}
				walk(x.Body, inner, depth+1)
				groupReturned = true
			case *RouteStmt:
				seenRoute = true
				if groupReturned {
					p.RouteAfterGroup = true
				}
				full, _ := RefNormalize(x.Path, p.Strict)
				x.Chain = nil
				if sc != nil {
					full, _ = RefNormalize(sc.prefix+full, p.Strict)
					x.Chain = append(x.Chain, sc.handlers...)
				}
				x.FullPath = full
				x.Depth = depth
				x.Chain = append(x.Chain, x.Variadic...)
				for _, l := range x.LaterUse {
					x.Chain = append(x.Chain, l...)
				}
				p.Routes = append(p.Routes, x)
			case NotFoundStmt:
				p.NotFoundH = x.H
			case NotAllowedStmt:
				p.NotAllowH = x.H
			}
		}
	}
	walk(p.Body, nil, 0)
}

// progController adapts a group body to rux.ControllerFace.
type progController struct{ add func(*rux.Router) }

func (c progController) AddRoutes(r *rux.Router) { c.add(r) }

// Build executes the program on a fresh router. Registration panics propagate.
func (p *Program) Build(extra ...func(*rux.Router)) *rux.Router {
	var opts []func(*rux.Router)
	if p.NotAllowed {
		opts = append(opts, rux.HandleMethodNotAllowed)
	}
	if p.CacheCap >= 0 {
		opts = append(opts, rux.CachingWithNum(uint16(p.CacheCap)))
	}
	if p.Strict {
		opts = append(opts, rux.StrictLastSlash)
	}
	opts = append(opts, extra...)
	r := rux.New(opts...)
	var atEnd []func()
	scratch := make([]rux.HandlerFunc, 0, 8)
	sharedSlices := map[int][]rux.HandlerFunc{}
	groupMW := func(x *GroupStmt) []rux.HandlerFunc {
		if x.SharedMW == 0 {
			return handlersOf(x.MW)
		}
		if s, ok := sharedSlices[x.SharedMW]; ok {
			return s[:len(x.MW)] // the very same backing array again (all of it, or its first elements)
		}
		s := handlersOf(p.Shared[x.SharedMW])
		sharedSlices[x.SharedMW] = s
		return s[:len(x.MW)]
	}
	var exec func(body []Stmt)
	exec = func(body []Stmt) {
		for _, s := range body {
			switch x := s.(type) {
			case UseStmt:
				r.Use(handlersOf(x.MW)...)
			case *GroupStmt:
				if x.Via == "controller" {
					r.Controller(x.Prefix, progController{add: func(*rux.Router) { exec(x.Body) }}, groupMW(x)...)
				} else {
					r.Group(x.Prefix, func() { exec(x.Body) }, groupMW(x)...)
				}
			case *RouteStmt:
				var route *rux.Route
				main := x.Main.Handler()
				// the application builds the argument list of every call in one scratch slice that it
				// reuses (and overwrites) for the next call: registration must not keep it
				scratch = append(scratch[:0], handlersOf(x.Variadic)...)
				mws := scratch
				switch x.Style {
				case "any":
					// Any() builds the route, attaches the middleware, then registers it
					r.Any(x.Path, main, mws...)
					route = findRoute(r, x.Method, x)
				case "prepared":
					route = rux.NewRoute(x.Path, main, x.Method).Use(mws...)
					r.AddRoute(route)
				case "attach":
					route = rux.NewRoute(x.Path, main, x.Method).Use(mws...)
					route.AttachTo(r)
				}
				if route == nil {
					switch x.Method {
					case "GET":
						route = r.GET(x.Path, main, mws...)
					case "POST":
						route = r.POST(x.Path, main, mws...)
					case "PUT":
						route = r.PUT(x.Path, main, mws...)
					case "DELETE":
						route = r.DELETE(x.Path, main, mws...)
					default:
						route = r.Add(x.Path, main, x.Method).Use(mws...)
					}
				}
				if strings.HasSuffix(x.Name, "1") || strings.HasSuffix(x.Name, "4") {
					// the documented chaining idiom, inside whatever group is being defined right now
					route.NamedTo("named-"+x.Name, r)
				}
				x.route = route
				x.pathAtReg = route.Path()
				x.handlersAtReg = len(route.Handlers())
				for _, l := range x.LaterUse {
					l := l
					if x.LaterAtEnd {
						atEnd = append(atEnd, func() { route.Use(handlersOf(l)...) })
					} else {
						scratch = append(scratch[:0], handlersOf(l)...)
						route.Use(scratch...)
					}
				}
			case NotFoundStmt:
				if len(x.H)%2 == 1 {
					r.NotFound(progReplacedFallback, progReplacedFallback) // defaults installed first (by a framework layer), replaced by the application's
				}
				r.NotFound(handlersOf(x.H)...)
			case NotAllowedStmt:
				if len(x.H)%2 == 0 {
					r.NotAllowed(progReplacedFallback)
				}
				r.NotAllowed(handlersOf(x.H)...)
			}
		}
	}
	exec(p.Body)
	for _, f := range atEnd {
		f()
	}
	if p.PanicHook {
		r.OnPanic = func(c *rux.Context) {
			recOf(c).Ev("hook")
			c.SetStatus(500)
		}
	}
	return r
}

// findRoute locates the route object registered by Router.Any (which returns nothing).
func findRoute(r *rux.Router, method string, x *RouteStmt) *rux.Route {
	var found *rux.Route
	r.IterateRoutes(func(rt *rux.Route) {
		if found == nil && len(rt.Methods()) == 9 && rt.Path() == x.FullPath {
			found = rt
		}
	})
	if found == nil {
		// fall back to the unique /r<k> segment (the path itself is what C12 checks)
		seg := "/" + strings.Split(strings.Trim(normPrefix(x.Path), "/"), "/")[0]
		r.IterateRoutes(func(rt *rux.Route) {
			if found == nil && len(rt.Methods()) == 9 && (strings.HasSuffix(rt.Path(), seg) || strings.Contains(rt.Path(), seg+"/")) {
				found = rt
			}
		})
	}
	return found
}

// ----- onion interpreter -----

// OnionEvents is the expected enter/leave trace of a chain in which every
// handler calls Next() m.Nexts times and nobody aborts.
func OnionEvents(chain []*MW) []string {
	var ev []string
	var run func(i int) int
	run = func(i int) int {
		for i < len(chain) {
			h := chain[i]
			ev = append(ev, "enter("+h.ID+")")
			if h.Nexts >= 1 {
				run(i + 1) // consumes the rest of the chain
				ev = append(ev, "leave("+h.ID+")")
				return len(chain)
			}
			ev = append(ev, "leave("+h.ID+")")
			i++
		}
		return i
	}
	run(0)
	return ev
}

// ----- generator -----

type progGen struct {
	r        *rand.Rand
	nMW      int
	nRoute   int
	nGroup   int
	maxDepth int
	nexts    func() int
	probes   bool // add a probe route after every Group return (C12)
	dynamic  bool // allow dynamic route paths
	ctrl     bool // allow Controller registrations
	maxMW    int  // max middleware per list
	noGlobal bool // no top-level Use statements
	optOnly  bool // some routes are dynamic without a variable: "/r3[.html]"
	bare     bool // a group may have one route whose own path is just "/{id}" (a variable right under the group prefix)
	strict   bool // StrictLastSlash router: some route paths end in '/', prefixes are spelled cleanly
	styles   bool // also register through Any / prepared NewRoute+Use+AddRoute / AttachTo

	sharedMW  map[int][]*MW   // slice variables of the application that are passed to several groups
	curPrefix string          // spelling of the innermost enclosing group's prefix ("" at top level)
	usedSelf  map[string]bool // (prefix, method) pairs already used for a route path equal to the prefix
}

func (g *progGen) mw(prefix string) *MW {
	g.nMW++
	return &MW{ID: fmt.Sprintf("%s%d", prefix, g.nMW), Nexts: g.nexts()}
}

func (g *progGen) mws(prefix string, max int) []*MW {
	n := g.r.IntN(max + 1)
	var ms []*MW
	for i := 0; i < n; i++ {
		ms = append(ms, g.mw(prefix))
	}
	return ms
}

func (g *progGen) route(probe bool) *RouteStmt {
	rs := g.route0(probe)
	// a route whose own path repeats the prefix of the group it is registered in
	// ("/g3" or "/g3/r7" inside Group("/g3")): still relative to the group
	if g.curPrefix != "" && chance(g.r, 1, 8) {
		if chance(g.r, 1, 2) {
			rs.Path = g.curPrefix + "/" + strings.TrimPrefix(rs.Path, "/")
		} else if !g.usedSelf[g.curPrefix+rs.Method] {
			g.usedSelf[g.curPrefix+rs.Method] = true
			rs.Path = g.curPrefix
			if rs.Style == "any" {
				rs.Style = "prepared" // keep (method, path) pairs unique
			}
		}
	}
	return rs
}

func (g *progGen) route0(probe bool) *RouteStmt {
	g.nRoute++
	rs := &RouteStmt{Name: fmt.Sprintf("R%d", g.nRoute), Method: pick(g.r, []string{"GET", "GET", "POST", "PUT", "DELETE", "PATCH"}), Probe: probe}
	rs.Path = fmt.Sprintf("/r%d", g.nRoute)
	if g.bare && g.dynamic && !g.optOnly && len(strings.Trim(g.curPrefix, "/ ")) > 0 && !strings.Contains(g.curPrefix, "{") && !g.usedSelf["bare:"+g.curPrefix] && chance(g.r, 1, 5) {
		// "/users/{id}" written as GET("/{id}") inside Group("/users"): the literal head of this route is the
		// group prefix itself, which is also the beginning of the heads of everything nested below
		g.usedSelf["bare:"+g.curPrefix] = true
		rs.Path = "/{id:[0-9]{3}}" // (three digits: no literal segment of these programs and no other variable's value looks like that)
	} else if g.dynamic && chance(g.r, 1, 3) {
		rs.Path += "/{id}"
	} else if g.optOnly && chance(g.r, 1, 4) {
		rs.Path += "[.html]"
	}
	if g.strict && chance(g.r, 1, 3) {
		rs.Path += "/" // significant on a StrictLastSlash router
	}
	if chance(g.r, 1, 8) {
		rs.Path = strings.TrimPrefix(rs.Path, "/") // registered without the leading slash
	}
	rs.Main = g.mw("h")
	rs.Main.Main = true
	if g.styles && chance(g.r, 1, 3) {
		rs.Style = pick(g.r, []string{"any", "prepared", "attach"})
	}
	if !probe {
		rs.Variadic = g.mws("m", g.maxMW)
		if chance(g.r, 1, 3) {
			k := 1 + g.r.IntN(2)
			for i := 0; i < k; i++ {
				l := g.mws("u", 2)
				if len(l) > 0 {
					rs.LaterUse = append(rs.LaterUse, l)
				}
			}
			rs.LaterAtEnd = chance(g.r, 1, 2)
		}
	}
	return rs
}

func (g *progGen) body(depth int, budget *int) []Stmt {
	var out []Stmt
	n := 1 + g.r.IntN(4)
	for i := 0; i < n && *budget > 0; i++ {
		*budget--
		switch x := g.r.IntN(10); {
		case x < 2:
			if g.noGlobal && depth == 0 {
				continue
			}
			if ms := g.mws("g", g.maxMW); len(ms) > 0 {
				out = append(out, UseStmt{ms})
			}
		case x < 5 && depth < g.maxDepth:
			g.nGroup++
			gs := &GroupStmt{Prefix: fmt.Sprintf("/g%d", g.nGroup), MW: g.mws("G", g.maxMW)}
			if g.bare && chance(g.r, 1, 6) {
				gs.Prefix += ".v2" // a dot in the literal text in front of a route's first variable ("/api/v1.2/users/{id}")
			}
			var useFirst *UseStmt
			if chance(g.r, 1, 4) {
				// middleware handed over as a slice variable that other groups get as well
				id := 1 + g.r.IntN(2)
				if g.sharedMW[id] == nil {
					g.sharedMW[id] = append(append(g.mws("S", 1), g.mw("S")), g.mw("S"))
				}
				gs.MW, gs.SharedMW = g.sharedMW[id], id
				if len(g.sharedMW[id]) >= 2 && chance(g.r, 1, 2) {
					// only the first k elements of the variable are handed over (mws[:k]...): the rest of its
					// backing array is spare capacity of the argument - and still the application's data
					gs.MW = g.sharedMW[id][:1+g.r.IntN(len(g.sharedMW[id])-1)]
					if chance(g.r, 1, 2) {
						useFirst = &UseStmt{[]*MW{g.mw("u")}}
					}
				}
			}
			if g.dynamic && chance(g.r, 1, 8) {
				gs.Prefix += "/{gid}" // a prefix with a path variable
			}
			if chance(g.r, 1, 6) && !g.strict {
				gs.Prefix = fmt.Sprintf("g%d/", g.nGroup) // clean prefix, sloppy spelling
			}
			if depth == 0 && chance(g.r, 1, 12) && !g.strict {
				gs.Prefix = pick(g.r, []string{"", "/"})
			}
			if g.ctrl && chance(g.r, 1, 4) {
				gs.Via = "controller"
			}
			saved := g.curPrefix
			g.curPrefix = "/" + strings.Trim(gs.Prefix, "/ ")
			if g.curPrefix == "/" {
				g.curPrefix = ""
			}
			gs.Body = g.body(depth+1, budget)
			if useFirst != nil {
				gs.Body = append([]Stmt{*useFirst}, gs.Body...)
			}
			g.curPrefix = saved
			out = append(out, gs)
			if g.probes {
				out = append(out, g.route(true))
			}
		default:
			out = append(out, g.route(false))
		}
	}
	if depth < g.maxDepth && *budget > 2 && chance(g.r, 1, 10) {
		// the application keeps one middleware list and hands it to several sibling groups;
		// between them a group WITHOUT middleware arguments calls Use
		id := 1 + g.r.IntN(2)
		if g.sharedMW[id] == nil {
			g.sharedMW[id] = append(g.mws("S", 1), g.mw("S"))
		}
		mk := func(withShared bool) *GroupStmt {
			g.nGroup++
			gs := &GroupStmt{Prefix: fmt.Sprintf("/g%d", g.nGroup)}
			if withShared {
				gs.MW, gs.SharedMW = g.sharedMW[id], id
			}
			saved := g.curPrefix
			g.curPrefix = gs.Prefix
			if !withShared {
				gs.Body = append(gs.Body, UseStmt{[]*MW{g.mw("g")}})
			}
			gs.Body = append(gs.Body, g.route(false))
			g.curPrefix = saved
			return gs
		}
		*budget -= 3
		out = append(out, mk(true), mk(false), mk(true))
		if g.probes {
			out = append(out, g.route(true))
		}
	}
	return out
}

// GenProgram draws a registration program.
func GenProgram(r *rand.Rand, g *progGen) *Program {
	g.r = r
	g.usedSelf = map[string]bool{}
	g.sharedMW = map[int][]*MW{}
	if g.nexts == nil {
		g.nexts = func() int {
			switch x := r.IntN(10); {
			case x < 2:
				return 0
			case x < 9:
				return 1
			}
			return 2
		}
	}
	if g.maxMW == 0 {
		g.maxMW = 3
	}
	budget := 14
	p := &Program{CacheCap: -1, NotAllowed: chance(r, 1, 2), Strict: g.strict}
	p.Body = g.body(0, &budget)
	p.Shared = g.sharedMW
	// make sure there is at least one route
	hasRoute := false
	var find func([]Stmt)
	find = func(b []Stmt) {
		for _, s := range b {
			switch x := s.(type) {
			case *RouteStmt:
				hasRoute = true
			case *GroupStmt:
				find(x.Body)
			}
		}
	}
	find(p.Body)
	if !hasRoute {
		p.Body = append(p.Body, g.route(false))
	}
	// a late top-level Use (global middleware added after routes exist)
	if !g.noGlobal && chance(r, 1, 3) {
		if ms := g.mws("g", g.maxMW); len(ms) > 0 {
			p.Body = append(p.Body, UseStmt{ms})
		}
	}
	insertAt := func(st Stmt) {
		// anywhere at top level: before, between or after the Use/route/group statements
		i := r.IntN(len(p.Body) + 1)
		p.Body = append(p.Body[:i:i], append([]Stmt{st}, p.Body[i:]...)...)
	}
	if chance(r, 1, 3) {
		insertAt(NotFoundStmt{append(g.mws("nf", 2), g.mw("nf"))})
	}
	if chance(r, 1, 3) {
		insertAt(NotAllowedStmt{append(g.mws("na", 2), g.mw("na"))})
	}
	if chance(r, 1, 3) {
		p.CacheCap = pick(r, []int{1, 2, 1000})
	}
	p.Model()
	return p
}

// RequestPath instantiates a route's full path.
func (rs *RouteStmt) RequestPath(r *rand.Rand) string {
	p := strings.ReplaceAll(rs.FullPath, "{id}", pick(r, []string{"1", "22", "abc"}))
	p = strings.ReplaceAll(p, "{id:[0-9]{3}}", pick(r, []string{"101", "202", "330"}))
	if strings.Contains(p, "[.html]") {
		p = strings.ReplaceAll(p, "[.html]", pick(r, []string{"", ".html"}))
	}
	return strings.ReplaceAll(p, "{gid}", pick(r, []string{"7", "red"}))
}

// progReplacedFallback is a not-found / not-allowed handler that is installed and then replaced by
// the program's own list: it must never run.
func progReplacedFallback(c *rux.Context) {
	if rec := recOf(c); rec != nil {
		rec.Ev("enter(replaced-fallback-handler)")
	}
	c.Next()
}
