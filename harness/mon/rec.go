package mon

import (
	"bufio"
	"bytes"
	"errors"
	"fmt"
	"io"
	"net"
	"net/http"
	"net/url"
	"sort"
	"strings"

	"github.com/gookit/rux"
)

// Call is one call that reached the underlying http.ResponseWriter.
type Call struct {
	Kind string // "WH" WriteHeader, "W" Write, "F" Flush
	Code int    // WH: status
	N    int    // W: bytes accepted
	Ask  int    // W: bytes offered
}

func (c Call) String() string {
	switch c.Kind {
	case "WH":
		return fmt.Sprintf("WriteHeader(%d)", c.Code)
	case "W":
		if c.N != c.Ask {
			return fmt.Sprintf("Write(%d of %d)", c.N, c.Ask)
		}
		return fmt.Sprintf("Write(%d)", c.N)
	}
	return "Flush"
}

// Rec is the recording http.ResponseWriter handed to the router. It is the
// per-request observation point: instrumented handlers reach it through
// Context.RawWriter() and append their events to it, so observations of
// concurrent requests never mix.
type Rec struct {
	H      http.Header
	Calls  []Call
	Body   bytes.Buffer
	Events []string

	// header snapshot at the moment of the first WriteHeader
	HeaderAtCommit http.Header

	// what instrumented handlers saw
	Route    string
	Params   map[string]string
	ParamVia map[string]string
	ParamLog []map[string]string
	CtxPtr   *rux.Context
	Extra    map[string]any

	// fault plan: the FailAt-th Write (1-based) accepts only Short bytes and errors
	FailAt int
	Short  int
	nWrite int

	// StrictCodes: WriteHeader refuses a status outside 100..999 by a panic, like net/http does
	StrictCodes bool
}

var errInjected = errors.New("injected write error")

func NewRec() *Rec { return &Rec{H: http.Header{}} }

func (r *Rec) Header() http.Header { return r.H }

func (r *Rec) WriteHeader(code int) {
	if r.StrictCodes && (code < 100 || code > 999) {
		panic(fmt.Sprintf("invalid WriteHeader code %v", code))
	}
	if r.HeaderAtCommit == nil {
		r.HeaderAtCommit = r.H.Clone()
	}
	r.Calls = append(r.Calls, Call{Kind: "WH", Code: code})
}

func (r *Rec) Write(b []byte) (int, error) {
	r.nWrite++
	if r.FailAt > 0 && r.nWrite == r.FailAt {
		n := r.Short
		if n > len(b) {
			n = len(b)
		}
		r.Body.Write(b[:n])
		r.Calls = append(r.Calls, Call{Kind: "W", N: n, Ask: len(b)})
		return n, errInjected
	}
	r.Body.Write(b)
	r.Calls = append(r.Calls, Call{Kind: "W", N: len(b), Ask: len(b)})
	return len(b), nil
}

func (r *Rec) Flush() { r.Calls = append(r.Calls, Call{Kind: "F"}) }

// FlushError is what net/http's own response writers offer to http.ResponseController.
func (r *Rec) FlushError() error { r.Flush(); return nil }

// Hijack makes the recorder usable by handlers that take over the connection (websocket
// style). The connection handed out is one end of an in-memory pipe.
func (r *Rec) Hijack() (net.Conn, *bufio.ReadWriter, error) {
	r.Ev("connection-hijacked")
	a, b := net.Pipe()
	_ = b.Close()
	return a, bufio.NewReadWriter(bufio.NewReader(a), bufio.NewWriter(a)), nil
}

func (r *Rec) Ev(format string, args ...any) {
	r.Events = append(r.Events, fmt.Sprintf(format, args...))
}

// Status returns the code of the first WriteHeader call (0 if none).
func (r *Rec) Status() int {
	for _, c := range r.Calls {
		if c.Kind == "WH" {
			return c.Code
		}
	}
	return 0
}

func (r *Rec) NumWH() int {
	n := 0
	for _, c := range r.Calls {
		if c.Kind == "WH" {
			n++
		}
	}
	return n
}

func (r *Rec) CallLog() string {
	ss := make([]string, len(r.Calls))
	for i, c := range r.Calls {
		ss[i] = c.String()
	}
	return strings.Join(ss, " ")
}

// Outcome is a comparable summary of what a client would see plus the handler trace.
func (r *Rec) Outcome() string {
	var hk []string
	for k, v := range r.H {
		hk = append(hk, k+"="+strings.Join(v, "|"))
	}
	sort.Strings(hk)
	return fmt.Sprintf("calls[%s] body[%q] headers[%s] events[%s] route[%s] params[%s]",
		r.CallLog(), r.Body.String(), strings.Join(hk, ";"), strings.Join(r.Events, " "), r.Route, fmtParams(r.Params))
}

func fmtParams(p map[string]string) string {
	if len(p) == 0 {
		return ""
	}
	ks := make([]string, 0, len(p))
	for k := range p {
		ks = append(ks, k)
	}
	sort.Strings(ks)
	var b strings.Builder
	for i, k := range ks {
		if i > 0 {
			b.WriteByte(',')
		}
		fmt.Fprintf(&b, "%s=%q", k, p[k])
	}
	return b.String()
}

func copyParams(p rux.Params) map[string]string {
	if p == nil {
		return nil
	}
	m := make(map[string]string, len(p))
	for k, v := range p {
		m[k] = v
	}
	return m
}

func sameParams(a, b map[string]string) bool {
	if len(a) != len(b) {
		return false
	}
	for k, v := range a {
		if w, ok := b[k]; !ok || w != v {
			return false
		}
	}
	return true
}

// recOf returns the recorder of the request a handler is serving.
// RecNF is a recorder whose underlying writer is NOT an http.Flusher (like the writer
// http.TimeoutHandler hands to its handler).
type RecNF struct{ R *Rec }

func (r RecNF) Header() http.Header         { return r.R.Header() }
func (r RecNF) WriteHeader(code int)        { r.R.WriteHeader(code) }
func (r RecNF) Write(b []byte) (int, error) { return r.R.Write(b) }

func recOf(c *rux.Context) *Rec {
	switch r := c.RawWriter().(type) {
	case *Rec:
		return r
	case RecNF:
		return r.R
	case RecRF:
		return r.Rec
	}
	return nil
}

// NewReq builds a request the way a server hands it to a handler: origin-form
// target, explicit URL.Path (not cleaned, not re-parsed), non-nil body.
func NewReq(method, path string) *http.Request {
	return &http.Request{
		Method:     method,
		URL:        &url.URL{Path: path},
		Proto:      "HTTP/1.1",
		ProtoMajor: 1,
		ProtoMinor: 1,
		Header:     http.Header{},
		Body:       http.NoBody,
		Host:       "example.test",
		RequestURI: path,
		RemoteAddr: "192.0.2.1:1234",
	}
}

// WriterLeaver installs a global middleware (call it before any other Use) that, for requests carrying
// the X-Leave-Writer header, answers through a writer of its own which it puts into c.Resp and never
// takes out again. The returned function sends such a request: the pooled context the next request
// of this router gets was last used that way.
func WriterLeaver(r *rux.Router) (leave func()) {
	r.Use(func(c *rux.Context) {
		if c.Req.Header.Get("X-Leave-Writer") != "" {
			c.Resp = &c05Buffer{hdr: http.Header{}}
			c.Text(200, "answered through a writer that stays in c.Resp")
			c.Abort()
			return
		}
		c.Next()
	})
	return func() {
		req := NewReq("GET", "/left-writer-behind")
		req.Header.Set("X-Leave-Writer", "1")
		_, _, _ = Serve(r, req)
	}
}

// NewReqBody is NewReq with a body and content type.
func NewReqBody(method, path, ctype string, body []byte) *http.Request {
	req := NewReq(method, path)
	req.Body = io.NopCloser(bytes.NewReader(body))
	if len(body) == 0 {
		req.Body = http.NoBody // what a server hands over for Content-Length: 0
	}
	req.ContentLength = int64(len(body))
	if ctype != "" {
		req.Header.Set("Content-Type", ctype)
	}
	return req
}

// Serve sends one request through the router and returns the recorder and a
// recovered panic value, if ServeHTTP panicked.
func Serve(h http.Handler, req *http.Request) (rec *Rec, pv any, panicked bool) {
	rec = NewRec()
	pv, panicked = catch(func() { h.ServeHTTP(rec, req) })
	return
}

// RecRF is a recorder whose underlying writer also implements io.ReaderFrom, like
// the real net/http response does. Whatever arrives through ReadFrom is logged as
// body bytes exactly like a Write.
type RecRF struct{ *Rec }

func (r RecRF) ReadFrom(src io.Reader) (int64, error) {
	b, err := io.ReadAll(src)
	if len(b) > 0 || err == nil {
		r.Rec.Body.Write(b)
		r.Rec.Calls = append(r.Rec.Calls, Call{Kind: "W", N: len(b), Ask: len(b)})
	}
	return int64(len(b)), err
}
