package mon

import (
	"bytes"
	"errors"
	"fmt"
	"math/rand/v2"
	"net/http"
	"strings"
	"time"

	"github.com/gookit/rux"
	"github.com/gookit/rux/pkg/handlers"
)

func init() { Monitors["C05"] = runC05 }

// hb is the behaviour of one handler of a C05 chain.
type hb struct {
	ID             string
	Nexts          int // for non-aborting handlers: 0, 1, 2
	Ab             *abortPlan
	SetStatusFirst int // != 0: this handler records that status at entry (SetStatus, nothing committed)
}

type abortPlan struct {
	Kind        string // Abort | AbortThen | AbortWithStatus | AbortWithStatusMsg
	When        string // before | after | without   (relative to the handler's own Next())
	ExtraNext   bool   // one more Next() after the abort
	WriteBefore bool   // a body byte is written before the abort (response already committed)
	AddError    bool   // the aborting handler records an error (c.AddError) right before it aborts
	PreStatus   int    // != 0: the FIRST handler of the chain records this status (without committing) before anything else
	Code        int
	PanicAfter  bool // the aborting handler panics right after the abort (the router has an OnPanic hook that samples IsAborted)
}

func (h hb) String() string {
	if h.Ab == nil {
		return fmt.Sprintf("%s(next x%d)", h.ID, h.Nexts)
	}
	a := h.Ab
	s := fmt.Sprintf("%s(%s", h.ID, a.Kind)
	if a.Code != 0 {
		s += fmt.Sprintf(" %d", a.Code)
	}
	s += " " + a.When + "-Next"
	if a.ExtraNext {
		s += " +Next-after-abort"
	}
	if a.WriteBefore {
		s += " write-before"
	}
	if a.PreStatus != 0 {
		s += fmt.Sprintf(" after-first-handler-SetStatus(%d)", a.PreStatus)
	}
	if a.AddError {
		s += " AddError-before-abort"
	}
	if a.PanicAfter {
		s += " panics-right-after-the-abort(OnPanic hook installed)"
	}
	return s + ")"
}

// ----- the handler that is actually registered -----

func (h hb) handler() rux.HandlerFunc {
	ia := func(c *rux.Context, rec *Rec, phase string) {
		rec.Ev("ia(%s,%s)=%v", h.ID, phase, c.IsAborted())
	}
	return func(c *rux.Context) {
		rec := recOf(c)
		rec.Ev("enter(%s)", h.ID)
		ia(c, rec, "entry")
		if h.SetStatusFirst != 0 {
			c.SetStatus(h.SetStatusFirst)
		}
		if h.Ab != nil && c.Req.Header.Get("X-NoAbort") != "" {
			// follow-up request on the same router: the aborter behaves like a plain middleware
			c.Next()
		} else if h.Ab == nil {
			for i := 0; i < h.Nexts; i++ {
				c.Next()
			}
		} else {
			a := h.Ab
			if a.WriteBefore {
				_, _ = c.Resp.Write([]byte("w"))
			}
			if a.When == "after" {
				c.Next()
			}
			ia(c, rec, "pre")
			if a.AddError {
				c.AddError(errors.New("recorded before the abort"))
			}
			switch a.Kind {
			case "Abort":
				c.Abort()
			case "AbortThen":
				if c.AbortThen() != c {
					rec.Ev("AbortThen-returned-other-context")
				}
			case "AbortWithStatus":
				c.AbortWithStatus(a.Code)
			case "AbortWithStatusMsg":
				c.AbortWithStatus(a.Code, "msg")
			}
			rec.Ev("abort(%s)", h.ID)
			ia(c, rec, "post")
			if a.PanicAfter {
				rec.Ev("panic-after-abort")
				panic("fault right after the abort")
			}
			if a.When == "before" {
				c.Next()
			}
			if a.ExtraNext {
				c.Next()
			}
		}
		ia(c, rec, "leave")
		rec.Ev("leave(%s)", h.ID)
	}
}

// ----- specification-level interpreter -----
//
// "Next() starts the not-yet-started handlers in order until the chain ends or
// the request is aborted." Every handler at most once; Next() after an abort
// starts nothing; a handler that returns without Next() is followed by the rest.

type specRun struct {
	chain   []hb
	next    int
	aborted bool
	ev      []string
}

func (s *specRun) Next() {
	for !s.aborted && s.next < len(s.chain) {
		h := s.chain[s.next]
		s.next++
		s.run(h)
	}
}

func (s *specRun) ia(h hb, phase string) {
	s.ev = append(s.ev, fmt.Sprintf("ia(%s,%s)=%v", h.ID, phase, s.aborted))
}

func (s *specRun) run(h hb) {
	s.ev = append(s.ev, "enter("+h.ID+")")
	s.ia(h, "entry")
	if h.Ab == nil {
		for i := 0; i < h.Nexts; i++ {
			s.Next()
		}
	} else {
		if h.Ab.When == "after" {
			s.Next()
		}
		s.ia(h, "pre")
		s.aborted = true
		s.ev = append(s.ev, "abort("+h.ID+")")
		s.ia(h, "post")
		if h.Ab.When == "before" {
			s.Next()
		}
		if h.Ab.ExtraNext {
			s.Next()
		}
	}
	s.ia(h, "leave")
	s.ev = append(s.ev, "leave("+h.ID+")")
}

// c05Chain describes one case.
type c05Chain struct {
	Chain          []hb
	NGlobal        int // the first NGlobal handlers are global middleware
	NGroup         int // then group middleware
	GlobalUseCalls int // globals added by this many Use calls
	// uninstrumented global middleware registered in front of everything else
	Recover    bool // a recover()-and-go-on middleware (inert unless something panics)
	Wrapper    bool // a buffering middleware: replaces c.Resp, replays status (default 200) and body after Next()
	FailWrites bool // the client is gone: the first body write at the underlying writer fails
	Timeout    bool // pkg/handlers.Timeout(1h) in front of everything: its deadline never passes
	// the route has a path variable and the router caches matched dynamic routes; the checked
	// request repeats an earlier one, so it is served from the cache
	CachedDynamic bool
}

func (cc c05Chain) reqPath() string {
	if cc.CachedDynamic {
		return "/g/x/7"
	}
	return "/g/x"
}

// c05Buffer is what a buffering/compressing middleware puts into c.Resp.
type c05Buffer struct {
	hdr    http.Header
	status int
	body   bytes.Buffer
}

func (b *c05Buffer) Header() http.Header { return b.hdr }
func (b *c05Buffer) WriteHeader(code int) {
	if b.status == 0 {
		b.status = code
	}
}
func (b *c05Buffer) Write(p []byte) (int, error) {
	if b.status == 0 {
		b.status = 200
	}
	return b.body.Write(p)
}

func (cc c05Chain) describe() any {
	ss := make([]string, len(cc.Chain))
	for i, h := range cc.Chain {
		ss[i] = h.String()
	}
	return map[string]any{"recover_middleware_first": cc.Recover, "buffering_middleware_first": cc.Wrapper, "first_body_write_fails": cc.FailWrites, "timeout_middleware_first(1h)": cc.Timeout, "chain": ss, "global": cc.NGlobal, "group": cc.NGroup, "route": len(cc.Chain) - 1 - cc.NGlobal - cc.NGroup, "total_handlers": len(cc.Chain), "dynamic_route_served_from_the_route_cache": cc.CachedDynamic}
}

func (cc c05Chain) build() *rux.Router {
	r := rux.New()
	rpath := "/x"
	if cc.CachedDynamic {
		r = rux.New(rux.EnableCaching)
		rpath = "/x/{id}"
	}
	hs := make([]rux.HandlerFunc, len(cc.Chain))
	for i, h := range cc.Chain {
		hs[i] = h.handler()
	}
	n := len(hs)
	g, q := cc.NGlobal, cc.NGroup
	for _, h := range cc.Chain {
		if h.Ab != nil && h.Ab.PanicAfter {
			r.OnPanic = func(c *rux.Context) {
				recOf(c).Ev("hook-sees-aborted=%v", c.IsAborted())
			}
		}
	}
	if cc.Timeout {
		r.Use(handlers.Timeout(time.Hour))
	}
	if cc.Recover {
		r.Use(func(c *rux.Context) {
			defer func() {
				if rv := recover(); rv != nil {
					recOf(c).Ev("recovered-a-panic(%v)", rv)
				}
			}()
			c.Next()
		})
	}
	if cc.Wrapper {
		r.Use(func(c *rux.Context) {
			orig := c.Resp
			buf := &c05Buffer{hdr: orig.Header()}
			c.Resp = buf
			c.Next()
			c.Resp = orig
			st := buf.status
			if st == 0 {
				st = 200
			}
			orig.WriteHeader(st)
			if buf.body.Len() > 0 {
				_, _ = orig.Write(buf.body.Bytes())
			}
		})
	}
	// globals: in one or several Use calls
	if g > 0 {
		if cc.GlobalUseCalls <= 1 {
			r.Use(hs[:g]...)
		} else {
			for i := 0; i < g; i++ {
				r.Use(hs[i])
			}
		}
	}
	main := hs[n-1]
	routeMW := hs[g+q : n-1]
	reg := func() {
		if len(routeMW)%2 == 0 {
			r.GET(rpath, main, routeMW...)
		} else {
			// half through the variadic argument, half through a later Route.Use
			k := len(routeMW) / 2
			r.GET(rpath, main, routeMW[:k]...).Use(routeMW[k:]...)
		}
	}
	if q > 0 {
		r.Group("/g", reg, hs[g:g+q]...)
	} else {
		r.Group("/g", reg)
	}
	return r
}

func runC05(e *Env) {
	e.Rule = "chains global+group+route middleware+main built through Use (one or several calls), Group middleware, variadic route middleware and Route.Use; exhaustive: every chain length 1..L (L=7 quick, 9 thorough) x every position of the aborting handler x {Abort, AbortThen, AbortWithStatus(code), AbortWithStatus(code,msg), code incl. 200, optionally after the first handler recorded another status without committing} x abort before/after/without its own Next() x extra Next() after the abort x every subset of the other handlers calling/not calling Next() x body byte written before the abort or not; sampled: long chains with totals around 31..33, 61..66 and 126..140 (beyond 63 through global middleware) and random behaviours (incl. double Next); after every aborted request a second request on the same router in which nobody aborts. Observed: enter/leave/abort events and IsAborted() sampled at entry, before/after the abort call and at leave of every handler, status/body at the recording writer. Oracle: specification-level interpreter of Next/Abort. Non-trivial: every case (each has an abort); distinct by chain description. Sampled chains may run behind an uninstrumented recover middleware and/or a buffering middleware that replaced c.Resp, or on a writer whose first body write fails, or behind pkg/handlers.Timeout(1h). Part unroutable: a global middleware aborts a request that only the router's built-in 404/405 answer would serve (that answer must not run). Part mounted: the chain ends in a rux sub-router / HandlerFunc mounted through WrapH (it records a status or nothing, writes nothing, may abort its own context) and a middleware aborts with a status after its Next(). Re-dispatch part: a handler hands the context to the router again (HandleContext) and a handler of that inner chain aborts; then, on the same router, a request aborts in a middleware and the router serves another request inside that middleware before the first goes on (its abort must stand, it must keep its own context); and a handler that calls AbortWithStatus and then re-dispatches to a route that only writes a body (the status stands). Parts debug-mode / debug-mode-mounted: short plans of the same generator and the mounted part with rux.Debug(true) (one worker; the switch is process-wide): the trace output must not change what an abort does. A quarter of the chains hang on a route with a path variable of a router with the route cache on, and the checked request repeats an earlier URL (served from the cache): the aborting middleware is still there."
	e.Assumptions = []string{
		"a route's own chain (group + route middleware + main handler) stays within the registration limit of 63; global middleware, which that limit does not count, makes executed chains of up to 140 entries",
	}
	e.Exhaustive = true
	maxL := int(e.N(7, 10))
	kinds := []string{"Abort", "AbortThen", "AbortWithStatus", "AbortWithStatusMsg"}
	whens := []string{"before", "after", "without"}
	// enumerate: for each L: j (L) x kind (4) x when (3) x extra (2) x write (2) x subset (2^(L-1))
	type block struct {
		L     int
		count int64
	}
	var blocks []block
	var total int64
	for L := 1; L <= maxL; L++ {
		c := int64(L) * 4 * 3 * 2 * 2 * (int64(1) << (L - 1))
		blocks = append(blocks, block{L, c})
		total += c
	}
	e.Note("exhaustive_scope", fmt.Sprintf("all %d cases for chain lengths 1..%d", total, maxL))
	e.RunCases("exhaustive", total, 0, func(t *T) {
		idx := t.Idx
		var L int
		for _, b := range blocks {
			if idx < b.count {
				L = b.L
				break
			}
			idx -= b.count
		}
		j := int(idx % int64(L))
		idx /= int64(L)
		kind := kinds[idx%4]
		idx /= 4
		when := whens[idx%3]
		idx /= 3
		extra := idx%2 == 1
		idx /= 2
		write := idx%2 == 1
		idx /= 2
		subset := idx // bit k (over the other handlers) = calls Next
		cc := c05Chain{}
		bit := 0
		for k := 0; k < L; k++ {
			h := hb{ID: fmt.Sprintf("h%d", k)}
			if k == j {
				h.Ab = &abortPlan{Kind: kind, When: when, ExtraNext: extra, WriteBefore: write}
				if strings.HasPrefix(kind, "AbortWithStatus") {
					h.Ab.Code = []int{401, 403, 500, 418, 200}[(j+L+int(subset))%5]
					if (t.Idx/3)%2 == 0 {
						h.Ab.PreStatus = []int{503, 201, 404}[(t.Idx/5)%3]
					}
					h.Ab.AddError = (t.Idx/7)%3 == 0
				}
			} else {
				if subset>>uint(bit)&1 == 1 {
					h.Nexts = 1
				}
				bit++
			}
			cc.Chain = append(cc.Chain, h)
		}
		for _, h := range cc.Chain {
			if h.Ab != nil && h.Ab.PreStatus != 0 {
				cc.Chain[0].SetStatusFirst = h.Ab.PreStatus
			}
		}
		// deterministic, varied split of the L-1 middleware
		mw := L - 1
		cc.NGlobal = int(t.Idx % int64(mw+1))
		cc.NGroup = int((t.Idx / 7) % int64(mw-cc.NGlobal+1))
		cc.GlobalUseCalls = 1 + int(t.Idx%2)
		c05Check(t, cc)
	})

	// sampled long chains
	longChain := func(totals []int) func(t *T) {
		return func(t *T) {
			r := t.R
			total := pick(r, totals)
			cc := c05Chain{}
			j := r.IntN(total)
			if chance(r, 1, 4) {
				j = total - 1 - r.IntN(3)
				if j < 0 {
					j = 0
				}
			}
			noAbort := chance(r, 1, 6)
			for k := 0; k < total; k++ {
				h := hb{ID: fmt.Sprintf("h%d", k), Nexts: 1}
				switch x := r.IntN(20); {
				case x == 0:
					h.Nexts = 0
				case x == 1:
					h.Nexts = 2
				}
				if k == j && !noAbort {
					h.Ab = &abortPlan{Kind: pick(r, kinds), When: pick(r, whens), ExtraNext: chance(r, 1, 2), WriteBefore: chance(r, 1, 4)}
					if strings.HasPrefix(h.Ab.Kind, "AbortWithStatus") {
						h.Ab.Code = pick(r, []int{401, 403, 404, 500, 503, 200, 200, 204, 499, 520, 299, 999}) // (also codes without a registered reason phrase)
						if chance(r, 1, 2) {
							h.Ab.PreStatus = pick(r, []int{503, 404, 201, 200})
						}
						h.Ab.AddError = chance(r, 1, 3)
					}
				}
				cc.Chain = append(cc.Chain, h)
			}
			for _, h := range cc.Chain {
				if h.Ab != nil && h.Ab.PreStatus != 0 {
					cc.Chain[0].SetStatusFirst = h.Ab.PreStatus
				}
			}
			mw := total - 1
			// route+group middleware must stay <= 62
			cc.NGlobal = r.IntN(mw + 1)
			if mw-cc.NGlobal > 62 {
				cc.NGlobal = mw - 62
			}
			cc.NGroup = r.IntN(mw - cc.NGlobal + 1)
			cc.GlobalUseCalls = 1 + r.IntN(2)
			cc.Recover = chance(r, 1, 4)
			cc.FailWrites = chance(r, 1, 4)
			cc.Timeout = chance(r, 1, 4)
			if cc.Timeout {
				t.Count("long.behind_timeout_middleware", 1)
			}
			if chance(r, 1, 4) {
				plain := true
				for _, h := range cc.Chain {
					if h.SetStatusFirst != 0 || (h.Ab != nil && (h.Ab.WriteBefore || h.Ab.PreStatus != 0)) {
						plain = false
					}
				}
				// (what a status recorded past the buffer, or a write in front of it, should become is the
				// buffering middleware's business, not the statement's: only plain plans get one)
				cc.Wrapper = plain
			}
			if !cc.Recover && !cc.Wrapper && chance(r, 1, 5) {
				for i := range cc.Chain {
					if cc.Chain[i].Ab != nil {
						cc.Chain[i].Ab.PanicAfter = true
					}
				}
			}
			if cc.Recover {
				t.Count("long.with_recover_middleware", 1)
			}
			if cc.FailWrites {
				t.Count("long.first_write_fails", 1)
			}
			if cc.Wrapper {
				t.Count("long.with_buffering_middleware", 1)
			}
			t.Count("long.total_"+itoa(total), 1)
			c05Check(t, cc)
		}
	}
	e.RunCases("long-chains", e.N(3000, 2000000), 0, longChain([]int{9, 12, 20, 31, 32, 33, 40, 50, 61, 62, 63, 63, 63, 64, 65, 66, 80, 100, 126, 127, 128, 129, 140}))
	// the same plans with the router's debug tracing switched on (a process-wide switch: one worker,
	// nothing else runs meanwhile): tracing must not change what an abort does
	rux.Debug(true)
	e.RunCases("debug-mode", e.N(150, 2000), 1, longChain([]int{2, 3, 4, 5, 7, 9}))
	e.RunCases("debug-mode-mounted", e.N(60, 600), 1, c05Mounted)
	rux.Debug(false)
	// an abort inside a chain that was reached through HandleContext (re-dispatch from the LAST
	// handler of the outer chain... or from an earlier one): it must stop the outer chain as well
	e.RunCases("redispatch-abort", e.N(1500, 100000), 0, c05Redispatch)
	e.RunCases("mounted", e.N(600, 20000), 0, c05Mounted)
	e.Require("mounted.checked", 500)
	e.RunCases("unroutable", e.N(600, 20000), 0, c05Unroutable)
	e.Require("unroutable.checked", 500)
	e.Require("redispatch.checked", 1000)
	e.Require("abort.before_next", 1000)
	e.Require("abort.after_next", 1000)
	e.Require("abort.with_status_uncommitted", 500)
	e.Require("abort.with_status_committed", 500)
	e.Require("later_handlers_suppressed", 1000)
	e.Require("suspended_handlers_resumed", 1000)
}

func c05Check(t *T, cc c05Chain) {
	cc.CachedDynamic = t.R.IntN(4) == 0
	t.Describe(cc.describe)
	var router *rux.Router
	if pv, panicked := catch(func() { router = cc.build() }); panicked {
		t.Fail("registration-panic", "registering a chain of %d handlers panicked: %v", len(cc.Chain), pv)
		return
	}
	t.AutoSample()
	spec := &specRun{chain: cc.Chain}
	spec.Next()
	rec := NewRec()
	if cc.FailWrites {
		rec.FailAt, rec.Short = 1, 0
	}
	if cc.CachedDynamic {
		// the same URL was asked for before (by a request in which nobody aborts)
		warm := NewReq("GET", cc.reqPath())
		warm.Header.Set("X-NoAbort", "1")
		_, _ = catch(func() { router.ServeHTTP(NewRec(), warm) })
		t.Count("chains.dynamic_route_served_from_the_route_cache", 1)
	}
	pv, panicked := catch(func() { router.ServeHTTP(rec, NewReq("GET", cc.reqPath())) })
	if panicked {
		t.Fail("servehttp-panic", "ServeHTTP panicked: %v", pv)
		return
	}
	t.NonTrivial(fmt.Sprint(cc.describe()))

	// feature counters from the specification side
	var ab *abortPlan
	abIdx := -1
	for i, h := range cc.Chain {
		if h.Ab != nil {
			ab, abIdx = h.Ab, i
		}
	}
	if ab != nil {
		switch ab.When {
		case "before":
			t.Count("abort.before_next", 1)
		case "after":
			t.Count("abort.after_next", 1)
		default:
			t.Count("abort.without_next", 1)
		}
		if ab.When != "after" && abIdx < len(cc.Chain)-1 {
			t.Count("later_handlers_suppressed", 1)
		}
		for _, h := range cc.Chain[:abIdx] {
			if h.Nexts > 0 {
				t.Count("suspended_handlers_resumed", 1)
				break
			}
		}
	}

	if ab != nil && ab.PanicAfter {
		// the panic unwinds every suspended handler: the trace ends at the abort, then the hook looks at the context
		var cut []string
		for _, ev := range spec.ev {
			cut = append(cut, ev)
			if ev == fmt.Sprintf("ia(%s,post)=true", cc.Chain[abIdx].ID) {
				break
			}
		}
		spec.ev = append(cut, "panic-after-abort", "hook-sees-aborted=true")
		t.Count("abort.then_panic_with_hook", 1)
	}
	got := rec.Events
	t.Tracef("status %d, writer calls [%s], trace: %s", rec.Status(), rec.CallLog(), strings.Join(got, " "))
	if !eventsEqual(spec.ev, got) {
		t.Fail(c05Classify(spec.ev, got), "chain %v:\n expected trace: %s\n observed trace: %s", cc.describe(), strings.Join(spec.ev, " "), strings.Join(got, " "))
		return
	}

	// response status clause
	if ab != nil && strings.HasPrefix(ab.Kind, "AbortWithStatus") {
		wantStatus := ab.Code
		committedBefore := ab.WriteBefore
		if committedBefore {
			wantStatus = 200
			if ab.PreStatus != 0 {
				wantStatus = ab.PreStatus // recorded by the first handler before the committing write
			}
			t.Count("abort.with_status_committed", 1)
		} else {
			t.Count("abort.with_status_uncommitted", 1)
		}
		if rec.Status() != wantStatus || rec.NumWH() != 1 {
			sig := "abort-status-not-applied"
			if committedBefore {
				sig = "abort-status-after-commit"
			}
			t.Fail(sig, "chain %v: expected exactly one WriteHeader(%d) (response committed before the abort: %v); the writer saw: %s", cc.describe(), wantStatus, committedBefore, rec.CallLog())
			return
		}
		if ab.Kind == "AbortWithStatusMsg" && !cc.FailWrites {
			wantBody := "msg\n"
			if committedBefore {
				wantBody = "wmsg\n"
			}
			if rec.Body.String() != wantBody {
				t.Fail("abort-message-body", "chain %v: expected body %q, observed %q", cc.describe(), wantBody, rec.Body.String())
			}
		}
	} else if ab != nil && ab.PreStatus != 0 && !ab.WriteBefore && (rec.Status() != ab.PreStatus || rec.NumWH() != 1) {
		t.Fail("recorded-status-lost", "chain %v: the first handler recorded status %d and nobody changed it; the writer saw: %s", cc.describe(), ab.PreStatus, rec.CallLog())
	} else if rec.NumWH() != 1 {
		t.Fail("header-commits", "chain %v: %d WriteHeader calls reached the writer (%s)", cc.describe(), rec.NumWH(), rec.CallLog())
	}

	// A later request on the same router (and the same pooled context) in which
	// nobody aborts: the abort of the first request must not be visible in it.
	if ab != nil {
		chain2 := make([]hb, len(cc.Chain))
		for i, h := range cc.Chain {
			if h.Ab != nil {
				h = hb{ID: h.ID, Nexts: 1, SetStatusFirst: h.SetStatusFirst}
			}
			chain2[i] = h
		}
		spec2 := &specRun{chain: chain2}
		spec2.Next()
		req2 := NewReq("GET", cc.reqPath())
		req2.Header.Set("X-NoAbort", "1")
		rec2, pv2, panicked2 := Serve(router, req2)
		if panicked2 {
			t.Fail("servehttp-panic", "follow-up request: ServeHTTP panicked: %v", pv2)
			return
		}
		t.Count("followup.request_after_abort", 1)
		if !eventsEqual(spec2.ev, rec2.Events) {
			t.Fail("abort-leaks-into-next-request:"+c05Classify(spec2.ev, rec2.Events), "chain %v: after a request that aborted, a second request on the same router in which nobody aborts:\n expected trace: %s\n observed trace: %s", cc.describe(), strings.Join(spec2.ev, " "), strings.Join(rec2.Events, " "))
		}
	}
}

func c05Classify(want, got []string) string {
	idx := func(ev []string, s string) int {
		for i, e := range ev {
			if e == s {
				return i
			}
		}
		return -1
	}
	// a handler started after the abort?
	ab := -1
	for i, e := range got {
		if strings.HasPrefix(e, "abort(") {
			ab = i
			break
		}
	}
	if ab >= 0 {
		for _, e := range got[ab:] {
			if strings.HasPrefix(e, "enter(") && idx(want, e) < 0 {
				return "handler-started-after-abort"
			}
		}
	}
	for _, e := range want {
		if strings.HasPrefix(e, "leave(") && idx(got, e) < 0 {
			return "suspended-handler-not-resumed"
		}
		if strings.HasPrefix(e, "enter(") && idx(got, e) < 0 {
			return "earlier-handler-missing"
		}
	}
	for i := range want {
		if i < len(got) && want[i] != got[i] && strings.HasPrefix(want[i], "ia(") {
			if strings.HasSuffix(want[i], "=true") {
				return "IsAborted-false-after-abort"
			}
			return "IsAborted-true-before-abort"
		}
	}
	return "wrong-trace"
}

var _ = rand.IntN

// c05Redispatch: handler j of the outer chain hands the context to the router again
// (HandleContext) for a second path; a handler of THAT chain aborts.
func c05Redispatch(t *T) {
	r := t.R
	nOuter := 1 + r.IntN(5)
	j := r.IntN(nOuter)
	nInner := 1 + r.IntN(4)
	k := r.IntN(nInner)
	kind := pick(r, []string{"Abort", "AbortThen", "AbortWithStatus"})
	extraNext := chance(r, 1, 2)
	code := pick(r, []int{401, 403, 422, 499, 520})
	t.Describe(func() any {
		return map[string]any{"outer_chain_handlers": nOuter, "redispatching_handler": j, "inner_chain_handlers": nInner, "aborting_inner_handler": k, "abort": kind, "Next_after_abort": extraNext}
	})
	t.AutoSample()
	router := rux.New()
	mkOuter := func(i int) rux.HandlerFunc {
		return func(c *rux.Context) {
			rec := recOf(c)
			rec.Ev("enter(o%d)", i)
			if i == j && c.Req.URL.Path != "/inner" {
				c.Req.URL.Path = "/inner"
				c.Router().HandleContext(c)
				rec.Ev("redispatch-returned(o%d) aborted=%v", i, c.IsAborted())
			}
			c.Next()
			rec.Ev("leave(o%d) aborted=%v", i, c.IsAborted())
		}
	}
	mkInner := func(i int) rux.HandlerFunc {
		return func(c *rux.Context) {
			rec := recOf(c)
			rec.Ev("enter(i%d)", i)
			if i == k {
				switch kind {
				case "Abort":
					c.Abort()
				case "AbortThen":
					c.AbortThen()
				default:
					c.AbortWithStatus(code)
				}
				rec.Ev("abort(i%d) aborted=%v", i, c.IsAborted())
				if extraNext {
					c.Next()
				}
			} else {
				c.Next()
			}
			rec.Ev("leave(i%d) aborted=%v", i, c.IsAborted())
		}
	}
	var outer, inner []rux.HandlerFunc
	for i := 0; i < nOuter; i++ {
		outer = append(outer, mkOuter(i))
	}
	for i := 0; i < nInner; i++ {
		inner = append(inner, mkInner(i))
	}
	router.GET("/outer", outer[nOuter-1], outer[:nOuter-1]...)
	router.GET("/inner", inner[nInner-1], inner[:nInner-1]...)
	rec, pv, panicked := Serve(router, NewReq("GET", "/outer"))
	if panicked {
		t.Fail("servehttp-panic", "re-dispatch with an aborting inner chain panicked: %v", pv)
		return
	}
	// specification: outer handlers 0..j enter; inner handlers 0..k enter; the abort; nothing else
	// starts; every suspended handler resumes (inner k..0, then the re-dispatching handler and the
	// outer ones before it) and sees IsAborted()==true
	var want []string
	for i := 0; i <= j; i++ {
		want = append(want, fmt.Sprintf("enter(o%d)", i))
	}
	for i := 0; i <= k; i++ {
		want = append(want, fmt.Sprintf("enter(i%d)", i))
	}
	want = append(want, fmt.Sprintf("abort(i%d) aborted=true", k))
	for i := k; i >= 0; i-- {
		want = append(want, fmt.Sprintf("leave(i%d) aborted=true", i))
	}
	want = append(want, fmt.Sprintf("redispatch-returned(o%d) aborted=true", j))
	for i := j; i >= 0; i-- {
		want = append(want, fmt.Sprintf("leave(o%d) aborted=true", i))
	}
	t.Count("redispatch.checked", 1)
	t.NonTrivial(fmt.Sprint(nOuter, j, nInner, k, kind, extraNext))
	t.Tracef("trace: %s", strings.Join(rec.Events, " "))
	if !eventsEqual(want, rec.Events) {
		sig := "redispatch-trace"
		for _, ev := range rec.Events {
			if strings.HasPrefix(ev, "enter(o") {
				var n int
				fmt.Sscanf(ev, "enter(o%d)", &n)
				if n > j {
					sig = "outer-handler-started-after-inner-abort"
				}
			}
		}
		t.Fail(sig, "outer chain of %d handlers, handler o%d re-dispatches to a chain of %d handlers whose i%d calls %s:\n expected trace: %s\n observed trace: %s", nOuter, j, nInner, k, kind, strings.Join(want, " "), strings.Join(rec.Events, " "))
		return
	}
	if kind == "AbortWithStatus" && (rec.Status() != code || rec.NumWH() != 1) {
		t.Fail("redispatch-abort-status", "AbortWithStatus(%d) inside the re-dispatched chain: the writer saw %s", code, rec.CallLog())
		return
	}

	// afterwards, on the same router: a request aborts in its middleware and, still inside that
	// middleware, the router serves another request (a sub-request / an overlapping client); the
	// abort of the first request stands when it goes on
	nGate := 2 + r.IntN(3)
	ga := r.IntN(nGate - 1) // the aborting middleware (never the main handler: something later exists)
	mkGate := func(i int) rux.HandlerFunc {
		return func(c *rux.Context) {
			rec := recOf(c)
			rec.Ev("enter(a%d)", i)
			if i == ga {
				switch kind {
				case "Abort":
					c.Abort()
				case "AbortThen":
					c.AbortThen()
				default:
					c.AbortWithStatus(code)
				}
				rec.Ev("abort(a%d) aborted=%v", i, c.IsAborted())
				nrec, _, npan := Serve(c.Router(), NewReq("GET", "/plain"))
				rec.Ev("other-request-served(status %d, panicked %v, same-context %v) aborted=%v", nrec.Status(), npan, nrec.CtxPtr != nil && nrec.CtxPtr == c, c.IsAborted())
				if extraNext {
					c.Next()
				}
			} else {
				c.Next()
			}
			rec.Ev("leave(a%d) aborted=%v", i, c.IsAborted())
		}
	}
	var gate []rux.HandlerFunc
	for i := 0; i < nGate; i++ {
		gate = append(gate, mkGate(i))
	}
	router.GET("/gate", gate[nGate-1], gate[:nGate-1]...)
	router.GET("/plain", func(c *rux.Context) {
		recOf(c).CtxPtr = c
		c.WriteString("plain")
	})
	grec, gpv, gpan := Serve(router, NewReq("GET", "/gate"))
	if gpan {
		t.Fail("servehttp-panic", "a request that aborts and then lets the router serve another request panicked: %v", gpv)
		return
	}
	var gwant []string
	for i := 0; i <= ga; i++ {
		gwant = append(gwant, fmt.Sprintf("enter(a%d)", i))
	}
	gwant = append(gwant, fmt.Sprintf("abort(a%d) aborted=true", ga), "other-request-served(status 200, panicked false, same-context false) aborted=true")
	for i := ga; i >= 0; i-- {
		gwant = append(gwant, fmt.Sprintf("leave(a%d) aborted=true", i))
	}
	t.Count("redispatch.followed_by_abort_with_overlapping_request", 1)
	t.Tracef("gate trace: %s", strings.Join(grec.Events, " "))
	if !eventsEqual(gwant, grec.Events) {
		t.Fail("abort-lost-while-another-request-was-served", "after a re-dispatched request, GET /gate (%d handlers, a%d calls %s, then the router serves GET /plain inside a%d, Next() afterwards: %v):\n expected trace: %s\n observed trace: %s", nGate, ga, kind, ga, extraNext, strings.Join(gwant, " "), strings.Join(grec.Events, " "))
		return
	}
	if kind == "AbortWithStatus" && (grec.Status() != code || grec.NumWH() != 1) {
		t.Fail("abort-status-lost-while-another-request-was-served", "AbortWithStatus(%d) in a%d, then another request served inside it: the writer saw %s", code, ga, grec.CallLog())
		return
	}

	// and: a handler refuses the request with a status (nothing committed yet) and hands it on to the
	// page that explains why (an internal redirect to a route that only writes a body)
	router.GET("/forward", func(c *rux.Context) {
		rec := recOf(c)
		rec.Ev("enter(f)")
		c.AbortWithStatus(code)
		c.Req.URL.Path = "/plain"
		c.Router().HandleContext(c)
		rec.Ev("leave(f) aborted=%v", c.IsAborted())
	})
	frec, fpv, fpan := Serve(router, NewReq("GET", "/forward"))
	if fpan {
		t.Fail("servehttp-panic", "AbortWithStatus followed by a re-dispatch panicked: %v", fpv)
		return
	}
	t.Count("redispatch.after_abort_with_status", 1)
	if !eventsEqual([]string{"enter(f)", "leave(f) aborted=true"}, frec.Events) {
		t.Fail("redispatch-trace", "GET /forward (AbortWithStatus(%d), then HandleContext to /plain): observed trace %s", code, strings.Join(frec.Events, " "))
		return
	}
	if frec.Status() != code || frec.NumWH() != 1 || frec.Body.String() != "plain" {
		t.Fail("abort-status-lost-by-redispatch", "AbortWithStatus(%d) with nothing committed, then HandleContext to a route that only writes \"plain\": expected exactly one WriteHeader(%d) and that body, the writer saw %s (body %q)", code, code, frec.CallLog(), frec.Body.String())
	}
}

// c05Mounted: the chain ends in another rux handler mounted as a plain http.Handler (a sub-router
// or a rux.HandlerFunc through WrapH); it records a status or nothing and writes no body. A
// middleware of the outer chain aborts with a status after its Next() returned: nothing has been
// committed (the mounted handler only reached the outer, lazy writer), so the abort's status is the
// response status, sent by exactly one WriteHeader.
func c05Mounted(t *T) {
	r := t.R
	nOuter := 1 + r.IntN(4)
	ab := r.IntN(nOuter)
	kind := pick(r, []string{"sub-router", "HandlerFunc"})
	innerStatus := pick(r, []int{0, 200, 202, 404})
	innerAborts := chance(r, 1, 3)
	code := pick(r, []int{401, 403, 503, 200, 599, 299})
	withMsg := chance(r, 1, 2)
	useTimeout := chance(r, 1, 3)
	t.Describe(func() any {
		return map[string]any{"outer_middleware": nOuter, "aborting_middleware(after its Next)": ab, "mounted": kind, "mounted_handler_records_status": innerStatus, "mounted_handler_aborts_its_own_context": innerAborts, "abort_status": code, "with_message": withMsg, "timeout_middleware_first(1h)": useTimeout}
	})
	t.AutoSample()
	var innerEntry []bool // IsAborted() of the mounted handler's own context when it starts: never true
	innerFn := func(c *rux.Context) {
		innerEntry = append(innerEntry, c.IsAborted())
		if innerStatus != 0 {
			c.SetStatus(innerStatus)
		}
		if innerAborts {
			c.Abort() // its own context: the outer chain is not concerned
		}
	}
	var mounted http.Handler = rux.HandlerFunc(innerFn)
	if kind == "sub-router" {
		sub := rux.New()
		sub.Any("/m", innerFn)
		mounted = sub
	}
	router := rux.New()
	if useTimeout {
		router.Use(handlers.Timeout(time.Hour))
	}
	var mws []rux.HandlerFunc
	for i := 0; i < nOuter; i++ {
		i := i
		mws = append(mws, func(c *rux.Context) {
			rec := recOf(c)
			rec.Ev("enter(o%d)", i)
			c.Next()
			if i == ab {
				if withMsg {
					c.AbortWithStatus(code, "denied")
				} else {
					c.AbortWithStatus(code)
				}
				rec.Ev("abort(o%d) aborted=%v", i, c.IsAborted())
			}
			rec.Ev("leave(o%d) aborted=%v", i, c.IsAborted())
		})
	}
	router.GET("/m", rux.WrapH(mounted), mws...)
	if innerAborts {
		// the same mounted handler has served (and aborted) an earlier request
		_, _, _ = Serve(router, NewReq("GET", "/m"))
	}
	rec, pv, panicked := Serve(router, NewReq("GET", "/m"))
	if panicked {
		t.Fail("servehttp-panic", "a chain ending in a mounted rux handler panicked: %v", pv)
		return
	}
	for i, ab := range innerEntry {
		if ab {
			t.Fail("IsAborted-true-before-any-abort", "the mounted %s (call %d of %d on this router; it calls Abort() on its own context: %v) started with IsAborted()==true although nothing had aborted that request", kind, i+1, len(innerEntry), innerAborts)
			return
		}
	}
	var want []string
	for i := 0; i < nOuter; i++ {
		want = append(want, fmt.Sprintf("enter(o%d)", i))
	}
	for i := nOuter - 1; i >= 0; i-- {
		if i == ab {
			want = append(want, fmt.Sprintf("abort(o%d) aborted=true", i))
		}
		want = append(want, fmt.Sprintf("leave(o%d) aborted=%v", i, i <= ab))
	}
	t.Count("mounted.checked", 1)
	t.NonTrivial(fmt.Sprint(nOuter, ab, kind, innerStatus, innerAborts, code, withMsg, useTimeout))
	t.Tracef("trace: %s; writer: %s", strings.Join(rec.Events, " "), rec.CallLog())
	if !eventsEqual(want, rec.Events) {
		t.Fail("mounted-trace", "outer chain of %d middleware ending in a mounted %s, o%d aborts after its Next():\n expected trace: %s\n observed trace: %s", nOuter, kind, ab, strings.Join(want, " "), strings.Join(rec.Events, " "))
		return
	}
	wantBody := ""
	if withMsg {
		wantBody = "denied\n" // http.Error appends a newline
	}
	if rec.Status() != code || rec.NumWH() != 1 || rec.Body.String() != wantBody {
		t.Fail("abort-status-not-applied-behind-mounted-handler", "the mounted %s recorded status %d and wrote nothing; o%d then called AbortWithStatus(%d%s): expected exactly one WriteHeader(%d) and body %q, the writer saw %s", kind, innerStatus, ab, code, map[bool]string{true: ", \"denied\"", false: ""}[withMsg], code, wantBody, rec.CallLog())
	}
}

// c05Unroutable: the request matches no route (404) or only routes of other methods (405 handling on) and the
// router's built-in answers are in charge; a GLOBAL middleware aborts before anything is written. The built-in
// answer is the last handler of that chain like any other: it must not run after the abort.
func c05Unroutable(t *T) {
	r := t.R
	nG := 1 + r.IntN(3)
	ab := r.IntN(nG)
	kind := pick(r, []string{"Abort", "AbortThen", "AbortWithStatus"})
	code := pick(r, []int{401, 403, 200, 503})
	case405 := chance(r, 1, 2)
	method, path := "GET", "/no/such/page"
	if case405 {
		method, path = pick(r, []string{"POST", "DELETE", "OPTIONS"}), "/only-get"
	}
	t.Describe(func() any {
		return map[string]any{"global_middleware": nG, "aborting": ab, "abort": kind, "status": code, "request": method + " " + path, "method_not_allowed_handling": case405}
	})
	t.AutoSample()
	var opts []func(*rux.Router)
	if case405 {
		opts = append(opts, rux.HandleMethodNotAllowed)
	}
	router := rux.New(opts...)
	for i := 0; i < nG; i++ {
		i := i
		router.Use(func(c *rux.Context) {
			rec := recOf(c)
			rec.Ev("enter(g%d)", i)
			if i == ab {
				switch kind {
				case "Abort":
					c.Abort()
				case "AbortThen":
					c.AbortThen()
				default:
					c.AbortWithStatus(code)
				}
				rec.Ev("abort(g%d) aborted=%v", i, c.IsAborted())
				if chance(r, 1, 2) {
					c.Next()
				}
			} else {
				c.Next()
			}
			rec.Ev("leave(g%d) aborted=%v", i, c.IsAborted())
		})
	}
	router.GET("/only-get", func(c *rux.Context) { recOf(c).Ev("enter(main)"); c.WriteString("main") })
	rec, pv, panicked := Serve(router, NewReq(method, path))
	if panicked {
		t.Fail("servehttp-panic", "an aborted unroutable request panicked: %v", pv)
		return
	}
	var want []string
	for i := 0; i <= ab; i++ {
		want = append(want, fmt.Sprintf("enter(g%d)", i))
	}
	want = append(want, fmt.Sprintf("abort(g%d) aborted=true", ab))
	for i := ab; i >= 0; i-- {
		want = append(want, fmt.Sprintf("leave(g%d) aborted=true", i))
	}
	t.Count("unroutable.checked", 1)
	t.NonTrivial(fmt.Sprint(nG, ab, kind, code, method, path))
	t.Tracef("trace %s; writer %s; Allow %q", strings.Join(rec.Events, " "), rec.CallLog(), rec.H.Get("Allow"))
	if !eventsEqual(want, rec.Events) {
		t.Fail("unroutable-trace", "%s %s with %d global middleware, g%d calls %s:\n expected trace: %s\n observed trace: %s", method, path, nG, ab, kind, strings.Join(want, " "), strings.Join(rec.Events, " "))
		return
	}
	wantStatus := 200 // nothing recorded: the default at the end of the request
	if kind == "AbortWithStatus" {
		wantStatus = code
	}
	if rec.Status() != wantStatus || rec.NumWH() != 1 || rec.Body.Len() != 0 || rec.H.Get("Allow") != "" {
		t.Fail("built-in-answer-after-abort", "%s %s, g%d calls %s(%d) before anything is written: the router's built-in 404/405 answer is the last handler of that chain and must not run; expected exactly one WriteHeader(%d), no body, no Allow header; the writer saw %s, body %q, Allow %q", method, path, ab, kind, code, wantStatus, rec.CallLog(), rec.Body.String(), rec.H.Get("Allow"))
	}
}
