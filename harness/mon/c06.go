package mon

import (
	"fmt"
	"math/rand/v2"
	"sort"
	"strings"

	"github.com/gookit/rux"
)

func init() { Monitors["C06"] = runC06 }

// RouterCfg is a generated option combination.
type RouterCfg struct {
	NotAllowed   bool
	Fallback     bool
	Strict       bool
	CacheCap     int    // -1 off
	Intercept    string // "" off; the spelling passed to InterceptAll
	CustomNF     bool
	CustomNA     bool
	FallbackMeth []string // methods of the "/*" route; nil = none registered
	Order        []int    // order in which the options are passed to rux.New (a permutation; nil = fixed)
	Encoded      bool     // UseEncodedPath (only used by the twin monitor C07: the reference models work on the decoded path)
	GlobalUse    int      // number of separate Router.Use(mw) calls (C06 only): global middleware in front of every resolution
}

func (c RouterCfg) Describe() any {
	return map[string]any{
		"HandleMethodNotAllowed": c.NotAllowed, "HandleFallbackRoute": c.Fallback, "StrictLastSlash": c.Strict,
		"cache_capacity": c.CacheCap, "InterceptAll": c.Intercept, "custom_NotFound": c.CustomNF, "custom_NotAllowed": c.CustomNA,
		"fallback_route_methods": strings.Join(c.FallbackMeth, ","), "option_order": c.Order, "UseEncodedPath": c.Encoded,
		"global_middleware_Use_calls": c.GlobalUse,
	}
}

func (c RouterCfg) Options() []func(*rux.Router) {
	var opts []func(*rux.Router)
	if c.NotAllowed {
		opts = append(opts, rux.HandleMethodNotAllowed)
	}
	if c.Fallback {
		opts = append(opts, rux.HandleFallbackRoute)
	}
	if c.Strict {
		opts = append(opts, rux.StrictLastSlash)
	}
	if c.CacheCap >= 0 {
		opts = append(opts, rux.CachingWithNum(uint16(c.CacheCap)))
	}
	if c.Intercept != "" {
		opts = append(opts, rux.InterceptAll(c.Intercept))
	}
	if c.Encoded {
		opts = append(opts, rux.UseEncodedPath)
	}
	if len(c.Order) > 0 {
		// the outcome must not depend on the order in which options are given
		sh := make([]func(*rux.Router), 0, len(opts))
		used := make([]bool, len(opts))
		for _, i := range c.Order {
			if i < len(opts) && !used[i] {
				sh = append(sh, opts[i])
				used[i] = true
			}
		}
		for i, o := range opts {
			if !used[i] {
				sh = append(sh, o)
			}
		}
		opts = sh
	}
	return opts
}

// Outcome of the reference resolution.
type refOutcome struct {
	Stage   string // direct | head-get | fallback | not-allowed | not-found
	Route   int    // index into the table, -1 if none
	Alt     int    // (was: the same stage's winner under the former KF2 ranking; since fix D16 it equals Route)
	Allowed []string
	Stages  int // how many stages were applicable (for the non-trivial rule)
}

// refResolve is the documented resolution order, written once, on top of the
// reference matcher.
func refResolve(tb *Table, cfg RouterCfg, method, path string) (refOutcome, bool) {
	src := path
	if cfg.Intercept != "" {
		src = cfg.Intercept
	}
	p, ok := RefNormalize(src, cfg.Strict)
	if !ok {
		return refOutcome{}, false
	}
	out := refOutcome{Route: -1, Alt: -1}
	direct, _ := tb.Resolve(method, p, false)
	directAlt, _ := tb.Resolve(method, p, false)
	headGet, headGetAlt := -1, -1
	if method == "HEAD" {
		headGet, _ = tb.Resolve("GET", p, false)
		headGetAlt, _ = tb.Resolve("GET", p, false)
	}
	fb := -1
	if cfg.Fallback {
		fb, _ = tb.Resolve(method, "/*", false)
		if fb >= 0 && tb.Routes[fb].Pat.String() != "/*" {
			fb = -1 // only the literal "/*" route is the fallback route
		}
	}
	var allowed []string
	if cfg.NotAllowed {
		for _, m := range AllMethods {
			if m == method {
				continue
			}
			if i, _ := tb.Resolve(m, p, false); i >= 0 {
				allowed = append(allowed, m)
			}
		}
		sort.Strings(allowed)
	}
	for _, b := range []bool{direct >= 0, headGet >= 0, fb >= 0, len(allowed) > 0} {
		if b {
			out.Stages++
		}
	}
	switch {
	case direct >= 0:
		out.Stage, out.Route, out.Alt = "direct", direct, directAlt
	case headGet >= 0:
		out.Stage, out.Route, out.Alt = "head-get", headGet, headGetAlt
	case fb >= 0:
		out.Stage, out.Route, out.Alt = "fallback", fb, fb
	case len(allowed) > 0:
		out.Stage, out.Allowed = "not-allowed", allowed
	default:
		out.Stage = "not-found"
	}
	return out, true
}

func genCfg(r *rand.Rand) RouterCfg {
	cfg := RouterCfg{
		NotAllowed: chance(r, 1, 2), Fallback: chance(r, 1, 2), Strict: chance(r, 1, 3),
		CacheCap: -1, CustomNF: chance(r, 1, 2), CustomNA: chance(r, 1, 2),
	}
	if chance(r, 1, 2) {
		cfg.CacheCap = pick(r, []int{0, 1, 2, 1000})
	}
	if chance(r, 2, 3) {
		cfg.Order = r.Perm(5)
	}
	switch r.IntN(10) {
	case 0:
		cfg.FallbackMeth = nil
	case 1, 2, 3:
		cfg.FallbackMeth = GenMethods(r, 30)
	default:
		cfg.FallbackMeth = append([]string{}, AllMethods...)
	}
	return cfg
}

func customNotFound(c *rux.Context) {
	recOf(c).Ev("custom-notfound")
	c.SetStatus(404)
	c.WriteString("custom-nf")
}

func customNotAllowed(c *rux.Context) {
	rec := recOf(c)
	rec.Ev("custom-notallowed")
	if v, ok := c.Get(rux.CTXAllowedMethods); ok {
		if ms, ok := v.([]string); ok {
			cp := append([]string{}, ms...)
			sort.Strings(cp)
			if rec.Extra == nil {
				rec.Extra = map[string]any{}
			}
			rec.Extra["allowed"] = cp
			// the handler works on its list afterwards (filters it in place): the list is this request's own
			if len(ms) > 0 {
				ms[0] = "FILTERED-BY-AN-EARLIER-REQUEST"
			}
		}
	}
	c.SetStatus(405)
	c.WriteString("custom-na")
}

// c06Global is a global middleware; armed by the header X-Nest "<id>|<method>|<path>" it
// serves a second request on the same router before it lets its own request go on.
func c06Global(id string) rux.HandlerFunc {
	return func(c *rux.Context) {
		rec := recOf(c)
		rec.Ev("enter(%s)", id)
		if nest := c.Req.Header.Get("X-Nest"); strings.HasPrefix(nest, id+"|") {
			parts := strings.SplitN(nest, "|", 3)
			nrec, npv, npan := Serve(c.Router(), NewReq(parts[1], parts[2]))
			if rec.Extra == nil {
				rec.Extra = map[string]any{}
			}
			rec.Extra["nested_rec"], rec.Extra["nested_panic"], rec.Extra["nested_panicked"] = nrec, npv, npan
		}
		c.Next()
	}
}

// BuildCfgRouter builds the router for a table + configuration.
func BuildCfgRouter(tb *Table, cfg RouterCfg) *rux.Router {
	r := BuildRouter(tb, cfg.Options()...)
	for i := 0; i < cfg.GlobalUse; i++ {
		r.Use(c06Global(fmt.Sprintf("g%d", i))) // one call per middleware, as applications add them
	}
	if cfg.CustomNF {
		r.NotFound(customNotFound)
	} else if len(tb.Routes)%2 == 0 {
		// custom handlers set and taken back again: an empty list means the built-in handler
		r.NotFound(customNotFound)
		r.NotFound()
	}
	if cfg.CustomNA {
		r.NotAllowed(customNotAllowed)
	} else if len(tb.Routes)%3 == 0 {
		r.NotAllowed(customNotAllowed)
		r.NotAllowed([]rux.HandlerFunc{}...)
	}
	return r
}

func runC06(e *Env) {
	e.Rule = "route tables (1..8 routes, skewed method subsets, optional '/*' route for all or some methods) x generated option sets {HandleMethodNotAllowed, HandleFallbackRoute, StrictLastSlash, caching, InterceptAll(p) in 4 spellings} x custom/default NotFound/NotAllowed handlers; probes = 9 methods x instantiations/mutations/trailing-slash variants/'/*'; observed through Match (route, allowed set) and ServeHTTP (status, Allow header, body, CTXAllowedMethods). Oracle: the documented resolution order on top of the AST reference matcher. Non-trivial: resolved by a fallback stage (HEAD->GET, '/*', 405) or >= 2 stages applicable; distinct by (table, options, method, path). Probes also use two request methods outside the nine (PURGE, LINK) and, through QuickMatch and ServeHTTP, method tokens that are not upper case (get, Post, head ...: other methods, resolved like PURGE). Half of the routers carry 1..4 global middleware (one Use call each); a quarter of their probes are sent once more while a second request for another method/path is resolved by the same router inside one of these middleware - both outcomes must be the model's."
	e.Assumptions = []string{
		"the allowed set of the statement is the set of other methods under which the path matches directly (no HEAD->GET, no '/*')",
		"only the literal route '/*' is a fallback route",
		"InterceptAll(p): the outcome of every request must equal the model's outcome for a request of p",
	}
	e.RunCases("tables", e.N(2500, 400000), 0, c06Case)
	e.Require("stage.head-get", 100)
	e.Require("stage.fallback", 100)
	e.Require("stage.not-allowed", 100)
	e.Require("stage.not-found", 100)
	e.Require("stage.direct", 100)
	e.Require("intercept.cases", 20)
	e.Require("options.strict", 20)
}

func c06Case(t *T) {
	r := t.R
	tb := GenTable(r, 1+r.IntN(8), 30)
	cfg := genCfg(r)
	if cfg.FallbackMeth != nil {
		tb.Routes = append(tb.Routes, &RouteSpec{Name: "fallback", Pat: &Pattern{Segs: []Seg{{Pre: "*"}}}, Methods: cfg.FallbackMeth})
	}
	probes := tb.ProbePaths(r, 2, 4)
	probes = append(probes, Probe{"/*", "rand"})
	if chance(r, 1, 6) {
		// InterceptAll: p is one of the probe paths, in one of four spellings
		p := pick(r, probes).Path
		core := strings.Trim(p, "/")
		if core == "" {
			core = "a"
		}
		cfg.Intercept = pick(r, []string{"/" + core, "/" + core + "/", core, "  /" + core + " "})
	}
	if chance(r, 1, 2) {
		cfg.GlobalUse = 1 + r.IntN(4)
	}
	var failing []string
	t.Describe(func() any {
		return map[string]any{"routes": tb.Describe(), "options": cfg.Describe(), "failing_probes": failing}
	})
	router := BuildCfgRouter(tb, cfg)
	t.AutoSample()
	if cfg.Intercept != "" {
		t.Count("intercept.cases", 1)
	}
	if cfg.Strict {
		t.Count("options.strict", 1)
	}
	key := fmt.Sprint(tb.Describe(), cfg.Describe())

	for _, probe := range probes {
		paths := []string{probe.Path}
		if chance(r, 1, 3) {
			paths = append(paths, probe.Path+"/")
		}
		for _, path := range paths {
			// method tokens are case-sensitive: "get" is not GET. The dispatcher (ServeHTTP, QuickMatch) resolves
			// such a request like any other method without routes (Match is the helper that upper-cases first)
			if chance(r, 1, 3) {
				lm := pick(r, []string{"get", "Post", "head", "delete", "oPTIONS", "put", "Head"})
				if want, ok := refResolve(tb, cfg, lm, path); ok {
					t.Count("probes.method_token_not_upper_case", 1)
					note := func() { failing = append(failing, lm+" "+path) }
					qroute, _, qalm := router.QuickMatch(lm, path)
					got := -1
					if qroute != nil {
						got = routeIndex(tb, qroute.Name())
					}
					galm := append([]string{}, qalm...)
					sort.Strings(galm)
					if got != want.Route || strings.Join(galm, ",") != strings.Join(want.Allowed, ",") {
						note()
						t.Fail("quickmatch-stage-"+want.Stage, "QuickMatch(%s %q) [%v]: documented order resolves at stage %q to %s allowed %v, observed route %s allowed %v", lm, path, cfg.Describe(), want.Stage, rdesc(tb, want.Route), want.Allowed, rdesc(tb, got), galm)
					} else if rec, pv, panicked := Serve(router, NewReq(lm, path)); panicked {
						note()
						t.Fail("servehttp-panic", "ServeHTTP(%s %q) [%v] panicked: %v", lm, path, cfg.Describe(), pv)
					} else {
						c06CheckServe(t, tb, cfg, want, lm, path, rec, "", note)
					}
				}
			}
			for _, method := range append(append([]string{}, AllMethods...), "PURGE", "LINK") {
				want, ok := refResolve(tb, cfg, method, path)
				if !ok {
					continue
				}
				t.Count("stage."+want.Stage, 1)
				if want.Stage != "direct" && want.Stage != "not-found" || want.Stages >= 2 {
					t.NonTrivial(key + method + path)
				}
				note := func() { failing = append(failing, method+" "+path) }

				// --- Match ---
				route, ps, alm := router.Match(method, path)
				got := -1
				if route != nil {
					got = routeIndex(tb, route.Name())
				}
				galm := append([]string{}, alm...)
				sort.Strings(galm)
				t.Tracef("%s %q: model resolves at stage %s to %s allowed %v; Match returned route %s allowed %v", method, path, want.Stage, rname(tb, want.Route), want.Allowed, rname(tb, got), galm)
				switch {
				case got != want.Route && got != want.Alt:
					note()
					t.Fail("match-stage-"+want.Stage, "Match(%s %q) [%v]: documented order resolves at stage %q to %s, observed route %s allowed %v", method, path, cfg.Describe(), want.Stage, rdesc(tb, want.Route), rdesc(tb, got), galm)
					continue
				case strings.Join(galm, ",") != strings.Join(want.Allowed, ","):
					note()
					t.Fail("match-allowed-set", "Match(%s %q) [%v]: allowed set must be exactly %v, observed %v", method, path, cfg.Describe(), want.Allowed, galm)
					continue
				}
				if want.Stage == "fallback" && len(ps) != 0 {
					note()
					t.Fail("fallback-with-params", "Match(%s %q): the '/*' route was selected with params {%s}", method, path, fmtParams(copyParams(ps)))
				}

				// --- ServeHTTP ---
				rec, pv, panicked := Serve(router, NewReq(method, path))
				if panicked {
					note()
					t.Fail("servehttp-panic", "ServeHTTP(%s %q) [%v] panicked: %v", method, path, cfg.Describe(), pv)
					continue
				}
				c06CheckServe(t, tb, cfg, want, method, path, rec, "", note)

				// --- the same request while another one is resolved inside a global middleware ---
				if cfg.GlobalUse > 0 && chance(r, 1, 4) {
					in := pick(r, probes)
					im := pick(r, AllMethods)
					iwant, iok := refResolve(tb, cfg, im, in.Path)
					if !iok {
						continue
					}
					gid := fmt.Sprintf("g%d", r.IntN(cfg.GlobalUse))
					oreq := NewReq(method, path)
					oreq.Header.Set("X-Nest", gid+"|"+im+"|"+in.Path)
					orec, opv, opan := Serve(router, oreq)
					t.Count("overlap.request_resolved_inside_global_middleware", 1)
					how := fmt.Sprintf(" {while %s %q was served inside its global middleware %s}", im, in.Path, gid)
					if opan {
						note()
						t.Fail("servehttp-panic", "ServeHTTP(%s %q)%s [%v] panicked: %v", method, path, how, cfg.Describe(), opv)
						continue
					}
					nrec, _ := orec.Extra["nested_rec"].(*Rec)
					if np, _ := orec.Extra["nested_panicked"].(bool); np || nrec == nil {
						note()
						t.Fail("servehttp-panic", "ServeHTTP(%s %q) served inside the global middleware %s of %s %q panicked: %v", im, in.Path, gid, method, path, orec.Extra["nested_panic"])
						continue
					}
					c06CheckServe(t, tb, cfg, want, method, path, orec, how, note)
					c06CheckServe(t, tb, cfg, iwant, im, in.Path, nrec, fmt.Sprintf(" {served inside the global middleware %s of %s %q}", gid, method, path), note)
				}
			}
		}
	}
}

// c06CheckServe judges one ServeHTTP observation against the model's resolution.
func c06CheckServe(t *T, tb *Table, cfg RouterCfg, want refOutcome, method, path string, rec *Rec, how string, note func()) {
	status, body, allow := rec.Status(), rec.Body.String(), rec.H.Get("Allow")
	path += how
	switch want.Stage {
	case "direct", "head-get", "fallback":
		if (rec.Route != tb.Routes[want.Route].Name && rec.Route != tb.Routes[want.Alt].Name) || status != 200 {
			note()
			t.Fail("serve-stage-"+want.Stage, "ServeHTTP(%s %q) [%v]: expected %s to run (stage %s), observed route %q status %d body %q", method, path, cfg.Describe(), rdesc(tb, want.Route), want.Stage, rec.Route, status, body)
		}
	case "not-allowed":
		if rec.Route != "" {
			note()
			t.Fail("serve-not-allowed-ran-route", "ServeHTTP(%s %q): expected the not-allowed handlers, but route %q ran", method, path, rec.Route)
			break
		}
		if cfg.CustomNA {
			ga, _ := rec.Extra["allowed"].([]string)
			if body != "custom-na" || status != 405 || strings.Join(ga, ",") != strings.Join(want.Allowed, ",") {
				note()
				t.Fail("serve-custom-not-allowed", "ServeHTTP(%s %q) [%v]: expected the custom not-allowed handler with allowed set %v; observed status %d body %q allowed-in-context %v events %v", method, path, cfg.Describe(), want.Allowed, status, body, ga, rec.Events)
			}
			break
		}
		wantStatus, wantBody := 405, "Method not allowed\n"
		if method == "OPTIONS" {
			wantStatus, wantBody = 200, ""
		}
		if status != wantStatus || body != wantBody || allow != strings.Join(want.Allowed, ", ") {
			note()
			t.Fail("serve-default-405", "ServeHTTP(%s %q) [%v]: expected status %d, Allow %q, body %q; observed status %d, Allow %q, body %q", method, path, cfg.Describe(), wantStatus, strings.Join(want.Allowed, ", "), wantBody, status, allow, body)
		}
	case "not-found":
		if rec.Route != "" {
			note()
			t.Fail("serve-not-found-ran-route", "ServeHTTP(%s %q): expected the not-found handlers, but route %q ran", method, path, rec.Route)
			break
		}
		if cfg.CustomNF {
			if body != "custom-nf" || status != 404 {
				note()
				t.Fail("serve-custom-not-found", "ServeHTTP(%s %q) [%v]: expected the custom not-found handler; observed status %d body %q events %v", method, path, cfg.Describe(), status, body, rec.Events)
			}
		} else if status != 404 || body != "404 page not found\n" {
			note()
			t.Fail("serve-default-404", "ServeHTTP(%s %q) [%v]: expected the default 404; observed status %d body %q", method, path, cfg.Describe(), status, body)
		}
	}
}
