package mon

import (
	"bytes"
	"encoding/json"
	"encoding/xml"
	"fmt"
	"io"
	"math/rand/v2"
	"mime"
	"mime/multipart"
	"net/http"
	"net/url"
	"reflect"
	"strconv"
	"strings"

	"github.com/gookit/rux"
	"github.com/gookit/rux/pkg/binding"
)

func init() { Monitors["C18"] = runC18 }

// representative bindable structs
type bindA struct {
	XMLName xml.Name `form:"-" query:"-" json:"-" xml:"bindA"`
	Age     int      `form:"age" query:"age" json:"age" xml:"age"`
	Name    string   `form:"name" query:"name" json:"name" xml:"name"`
	Tags    []string `form:"tags" query:"tags" json:"tags" xml:"tags"`
	Nums    []int    `form:"nums" query:"nums" json:"nums" xml:"nums"`
	OK      bool     `form:"ok" query:"ok" json:"ok" xml:"ok"`
}

type bindB struct {
	XMLName xml.Name `form:"-" query:"-" json:"-" xml:"bindB"`
	ID      int64    `form:"id" query:"id" json:"id" xml:"id"`
	Title   string   `form:"title" query:"title" json:"title" xml:"title"`
	Extra   string   `form:"extra" query:"extra" json:"extra" xml:"extra"`
}

// bindT uses a different field name in every source, so a bind through the wrong tag shows
type bindT struct {
	XMLName xml.Name `form:"-" query:"-" header:"-" json:"-" xml:"bindT"`
	Age     int      `form:"f_age" query:"q_age" header:"X-Age" json:"j_age" xml:"x_age"`
	Name    string   `form:"f_name" query:"q_name" header:"X-Name" json:"j_name" xml:"x_name"`
}

// bindV carries validation rules for the stock validator
type bindV struct {
	XMLName xml.Name `form:"-" query:"-" json:"-" xml:"bindV"`
	Age     int      `form:"age" query:"age" json:"age" xml:"age" validate:"required|min:1"`
	Name    string   `form:"name" query:"name" json:"name" xml:"name" validate:"required"`
}

// bindOrder carries its validation rules only in the elements of a slice.
type bindOrder struct {
	XMLName xml.Name   `json:"-" xml:"order"`
	Note    string     `json:"note" xml:"note"`
	Lines   []bindLine `json:"lines" xml:"lines"`
}

type bindLine struct {
	Sku string `json:"sku" xml:"sku" validate:"required"`
	Qty int    `json:"qty" xml:"qty" validate:"required|min:1"`
}

var bodyMethods = map[string]bool{"POST": true, "PUT": true, "PATCH": true}

var strPool = []string{"", "a", "hello world", "ünïcödé 日本", "a&b=c", "x+y;z", "100%", "%41", "\"quoted\" 'q'", "<tag>&amp;", "tab\there", "line\nbreak", " lead", "trail ", "a=b&c=d", "{json}", "[1,2]", "null", "true", "0"}

func genBindA(r *rand.Rand) bindA {
	a := bindA{Age: pick(r, []int{0, 1, -1, 42, -2147483648, 2147483647, 1 << 40}), Name: pick(r, strPool), OK: chance(r, 1, 2)}
	for i, n := 0, r.IntN(4); i < n; i++ {
		a.Tags = append(a.Tags, pick(r, strPool))
	}
	for i, n := 0, r.IntN(4); i < n; i++ {
		a.Nums = append(a.Nums, pick(r, []int{0, 1, -1, 7, 1000000}))
	}
	return a
}

func xmlSafe(s string) string {
	// the XML format itself does not round-trip \r, and white-space-only/edge text is kept verbatim
	return strings.ReplaceAll(s, "\r", "")
}

func valuesOfA(a bindA) url.Values {
	v := url.Values{}
	v.Set("age", strconv.Itoa(a.Age))
	v.Set("name", a.Name)
	for _, t := range a.Tags {
		v.Add("tags", t)
	}
	for _, n := range a.Nums {
		v.Add("nums", strconv.Itoa(n))
	}
	v.Set("ok", strconv.FormatBool(a.OK))
	return v
}

func multipartBody(v url.Values) (string, []byte) {
	var buf bytes.Buffer
	w := multipart.NewWriter(&buf)
	for k, vs := range v {
		for _, x := range vs {
			_ = w.WriteField(k, x)
		}
	}
	_ = w.Close()
	return w.FormDataContentType(), buf.Bytes()
}

func equalA(x, y bindA) bool {
	x.XMLName, y.XMLName = xml.Name{}, xml.Name{}
	if len(x.Tags) == 0 {
		x.Tags = nil
	}
	if len(y.Tags) == 0 {
		y.Tags = nil
	}
	if len(x.Nums) == 0 {
		x.Nums = nil
	}
	if len(y.Nums) == 0 {
		y.Nums = nil
	}
	return reflect.DeepEqual(x, y)
}

// recording validator
type recValidator struct {
	calls   int
	last    any
	predict func(any) error
}

func (v *recValidator) Validate(i any) error {
	v.calls++
	v.last = i
	if v.predict != nil {
		return v.predict(i)
	}
	return nil
}

func runC18(e *Env) {
	e.Rule = "decision table: 9 methods x content types {form-urlencoded, multipart/form-data with boundary, application/json, text/json, application/xml, text/xml - each with and without '; charset=utf-8' - text/plain, application/yaml, application/octet-stream, application/form-data, empty}; every request carries DIFFERENT data in the query string and in the body (and a key that exists only in the query), so the bound value reveals the source. Round trip: values of representative structs (ints incl. negative/large, strings with unicode, separators, quotes, angle brackets, blanks, bools, []string, []int) encoded by independent encoders (url.Values.Encode, mime/multipart, encoding/json, encoding/xml) and bound back through binding.Auto, Context.Bind/AutoBind, ShouldBind(JSON|XML|Form|Query), BindJSON/BindXML/BindForm: deep equality. Malformed: random byte strings and truncations/mutations of valid bodies under every content type: error or success, never a panic. Sequences: histories of 3..8 binds through different binders (query, form, multipart, header, JSON, XML) on a struct whose field names differ per source, incl. bodies whose reader fails mid-way; every bind must behave as if it were the first one. Validation: a recording validator with a predicate, the stock validator with validate tags, and the validator disabled. Single-threaded (the validator is a package global). Non-trivial: a body-method request, a string with separators/unicode, a malformed body, or a validator decision; distinct by case. The decision table is repeated on requests on which Request.FormValue was called before; slices contain empty elements; a stock-validator mode with rules only on the element struct of a slice; markup declarations of any length (<!x>, <!>, <!DOCTYPE ...>) in front of XML documents; a quarter of the stock-validator binds use a **struct or *interface{*struct} target (success implies the struct is valid)."
	e.Assumptions = []string{
		"XML strings are restricted to characters XML can carry (no \\r); JSON strings are valid UTF-8",
		"every bind uses a fresh request (binding the same parsed form twice is outside the statement)",
		"requests are built like a server builds them: the body is never nil",
	}
	binding.ResetValidator()
	defer binding.ResetValidator()

	ctypes := []struct {
		CT   string
		Kind string // form | multipart | json | xml | other
	}{
		{"application/x-www-form-urlencoded", "form"}, {"application/x-www-form-urlencoded; charset=utf-8", "form"},
		{"multipart/form-data", "multipart"},
		{"application/json", "json"}, {"application/json; charset=utf-8", "json"}, {"text/json", "json"},
		{"application/json ; charset=utf-8", "json"}, {"application/json\t;charset=utf-8", "json"}, {"text/xml ; charset=utf-8", "xml"},
		{"application/x-www-form-urlencoded ; charset=UTF-8", "form"},
		{"application/xml", "xml"}, {"text/xml", "xml"}, {"text/xml; charset=utf-8", "xml"},
		{"text/plain", "other"}, {"application/yaml", "other"}, {"application/octet-stream", "other"}, {"", "other"},
		{"application/form-data", "other"}, {"text/html", "other"}, {"application/x-protobuf", "other"},
		// unknown media types that merely contain the text of a supported one (in a parameter, as a prefix)
		{"text/plain; note=a/json", "other"}, {"application/octet-stream; was=application/json", "other"}, {"application/jsonl", "other"},
		{"text/x-www-form-urlencoded", "other"}, {"application/x-www-form-urlencoded-v2", "other"}, {"application/xml-dtd", "other"},
		// a supported media type whose parameter mentions another one
		{"application/xml; profile=\"http://example.com/json\"", "xml"}, {"application/json; note=\"was text/xml\"", "json"},
	}

	bodyFor := func(kind string, name string) (ct string, body []byte) {
		v := url.Values{"name": {name}, "age": {"7"}}
		switch kind {
		case "form":
			return "", []byte(v.Encode())
		case "multipart":
			c, b := multipartBody(v)
			return c, b
		case "json":
			b, _ := json.Marshal(map[string]any{"name": name, "age": 7})
			return "", b
		case "xml":
			b, _ := xml.Marshal(bindA{Name: name, Age: 7})
			return "", b
		}
		// "other": give it a perfectly good JSON body; the type must still be refused
		b, _ := json.Marshal(map[string]any{"name": name, "age": 7})
		return "", b
	}

	// ---- decision table (exhaustive) ----
	e.RunCases("decision-table", int64(len(AllMethods)*len(ctypes)), 1, func(t *T) {
		method := AllMethods[int(t.Idx)%len(AllMethods)]
		ct := ctypes[int(t.Idx)/len(AllMethods)]
		t.Describe(func() any { return map[string]any{"method": method, "content_type": ct.CT, "kind": ct.Kind} })
		t.AutoSample()
		t.NonTrivial(method + ct.CT)
		ctOverride, body := bodyFor(ct.Kind, "B")
		ctype := ct.CT
		if ctOverride != "" {
			ctype = ctOverride
		}
		for vi, via := range []string{"binding.Auto", "Context.Bind", "Context.AutoBind", "binding.Bind", "binding.Auto", "Context.Bind", "binding.Auto", "Context.Bind"} {
			req := NewReqBody(method, "/p", ctype, body)
			req.URL.RawQuery = "name=Q&age=3&extra=only-in-query"
			if vi >= 6 {
				// the application has emptied the registry of named binders (used by GetBinder / ShouldBind by
				// name): automatic binding selects its source from the request alone
				saved := map[string]binding.Binder{}
				for _, n := range []string{"json", "xml", "form", "query"} {
					saved[n] = binding.GetBinder(n)
				}
				binding.Remove("json", "xml", "form", "query")
				defer func() {
					for n, b := range saved {
						if b != nil {
							binding.Register(n, b)
						}
					}
				}()
				via += " with an emptied binder registry"
				t.Count("decision.registry_emptied", 1)
			}
			if vi == 4 || vi == 5 {
				if ct.Kind == "form" || ct.Kind == "multipart" {
					continue
				}
				// something before the binder (a CSRF or logging middleware) has asked net/http for a form
				// value: that parses the query, leaves a non-form body alone and must not change the source
				_ = req.FormValue("_csrf")
				via += " after Request.FormValue"
				t.Count("decision.preparsed", 1)
			}
			var got struct {
				Name  string `form:"name" query:"name" json:"name" xml:"name"`
				Age   int    `form:"age" query:"age" json:"age" xml:"age"`
				Extra string `form:"extra" query:"extra" json:"extra" xml:"extra"`
			}
			var err error
			pv, panicked := catch(func() {
				switch {
				case strings.HasPrefix(via, "binding.Auto"):
					err = binding.Auto(req, &got)
				case via == "binding.Bind":
					err = binding.Bind(req, &got)
				default:
					c := &rux.Context{}
					c.Init(NewRec(), req)
					if strings.HasPrefix(via, "Context.Bind") {
						err = c.Bind(&got)
					} else {
						err = c.AutoBind(&got)
					}
				}
			})
			if panicked {
				t.Fail("bind-panics", "%s %s Content-Type %q via %s panicked: %v", method, "/p", ctype, via, pv)
				return
			}
			t.Count("decision.checked", 1)
			t.Tracef("%s Content-Type %q via %s: err=%v bound %+v", method, ctype, via, err, got)
			switch {
			case !bodyMethods[method]:
				if err != nil || got.Name != "Q" || got.Extra != "only-in-query" {
					t.Fail("non-body-method-source", "%s with Content-Type %q via %s must bind from the query string (name=Q): err=%v bound %+v", method, ctype, via, err, got)
					return
				}
			case ct.Kind == "other":
				if err == nil {
					t.Fail("unsupported-type-accepted", "%s with Content-Type %q via %s must be refused with an error; bound %+v without error", method, ctype, via, got)
					return
				}
			default:
				if err != nil || got.Name != "B" || got.Age != 7 {
					t.Fail("body-method-source", "%s with Content-Type %q via %s must bind the %s body (name=B, age=7): err=%v bound %+v", method, ctype, via, ct.Kind, err, got)
					return
				}
				if got.Extra != "" {
					t.Fail("query-leaks-into-body-bind", "%s with Content-Type %q via %s: the field 'extra' exists only in the query string but was bound (%q): the source is not solely the body", method, ctype, via, got.Extra)
					return
				}
			}
		}
	})

	// ---- round trips ----
	e.RunCases("round-trip", e.N(6000, 1500000), 1, func(t *T) {
		r := t.R
		a := genBindA(r)
		format := pick(r, []string{"form", "multipart", "json", "xml", "query"})
		method := pick(r, []string{"POST", "PUT", "PATCH"})
		via := pick(r, []string{"Auto", "Context.Bind", "ShouldBind", "BindX"})
		if format == "xml" {
			a.Name = xmlSafe(a.Name)
			for i := range a.Tags {
				a.Tags[i] = xmlSafe(a.Tags[i])
			}
		}
		var ctype string
		var body []byte
		path := "/p"
		switch format {
		case "form":
			ctype, body = pick(r, []string{"application/x-www-form-urlencoded", "application/x-www-form-urlencoded; charset=UTF-8"}), []byte(valuesOfA(a).Encode())
		case "multipart":
			ctype, body = multipartBody(valuesOfA(a))
		case "json":
			ctype = pick(r, []string{"application/json", "application/json; charset=utf-8", "text/json"})
			body, _ = json.Marshal(a)
		case "xml":
			ctype = pick(r, []string{"application/xml", "text/xml", "application/xml; charset=utf-8"})
			body, _ = xml.Marshal(a)
		case "query":
			method = pick(r, []string{"GET", "DELETE", "HEAD", "OPTIONS"})
			if chance(r, 1, 5) {
				// method tokens are case-sensitive: "post" is not POST, such a request is "anything but POST, PUT
				// and PATCH" and is bound from its query string - whatever body and Content-Type it carries
				method = pick(r, []string{"post", "Put", "patch", "Post"})
				ctype = pick(r, []string{"application/json", "application/xml", "application/x-www-form-urlencoded", "text/plain", ""})
				body = []byte(pick(r, []string{`{"age":4242,"name":"from-the-body"}`, `<bindA><age>4242</age><name>from-the-body</name></bindA>`, `age=4242&name=from-the-body`}))
				t.Count("roundtrip.query_with_method_token_not_upper_case", 1)
			}
		}
		t.Describe(func() any {
			return map[string]any{"value": fmt.Sprintf("%+v", a), "format": format, "method": method, "content_type": ctype, "via": via, "body": string(body)}
		})
		t.AutoSample()
		req := NewReqBody(method, path, ctype, body)
		if chance(r, 1, 3) {
			// a body of unknown length (chunked transfer / streamed by the client)
			req.ContentLength = -1
			req.Body = io.NopCloser(oneByteReader{bytes.NewReader(body)})
			t.Count("roundtrip.unknown_content_length", 1)
		}
		if format == "query" {
			req.URL.RawQuery = valuesOfA(a).Encode()
			if chance(r, 1, 3) {
				// an earlier middleware looked at the request form (that parses and caches it in r.Form) and
				// worked on that cache - removed a key, added a derived one: the binding source of a body-less
				// request is the query string of the request, not the application's scratch copy
				_ = req.ParseForm()
				if req.Form != nil {
					req.Form.Del("name")
					req.Form.Del("tags")
					req.Form.Set("age", "424242")
				}
				t.Count("roundtrip.query_after_the_form_cache_was_edited", 1)
			}
		} else if chance(r, 1, 2) && (via == "Auto" || via == "Context.Bind") {
			// automatic binding takes body formats solely from the body: an unrelated query key must not matter
			// (the explicit Form binder documents that it reads the merged request form, so it is left alone)
			req.URL.RawQuery = "unrelated=1"
		}
		auditFirst := (format == "form" || format == "multipart") && (via == "Auto" || via == "Context.Bind") && chance(r, 1, 2) // (automatic binding reads the body form, which FormParams must leave alone; the explicit Form binder reads the merged view FormParams works on)
		if auditFirst {
			t.Count("roundtrip.after_FormParams_with_excepts", 1)
		}
		var got bindA
		var err error
		pv, panicked := catch(func() {
			c := &rux.Context{}
			c.Init(NewRec(), req)
			if auditFirst {
				// an audit middleware logged the submitted form without the sensitive fields: FormParams(excepts)
				// leaves them out of the copy it RETURNS - the request keeps what the client sent
				_, _ = c.FormParams([]string{"name", "tags", "ok"})
			}
			switch via {
			case "Auto":
				err = binding.Auto(req, &got)
			case "Context.Bind":
				err = c.Bind(&got)
			case "ShouldBind":
				switch format {
				case "json":
					err = c.ShouldBind(&got, binding.JSON)
				case "xml":
					err = c.ShouldBind(&got, binding.XML)
				case "query":
					err = c.ShouldBind(&got, binding.Query)
				case "form":
					err = c.ShouldBind(&got, binding.Form)
				default:
					err = binding.Auto(req, &got)
				}
			default:
				switch format {
				case "json":
					err = c.BindJSON(&got)
				case "xml":
					err = c.BindXML(&got)
				case "form":
					err = c.BindForm(&got)
				default:
					err = binding.Auto(req, &got)
				}
			}
		})
		if panicked {
			t.Fail("bind-panics", "binding a valid %s body panicked: %v", format, pv)
			return
		}
		t.Count("roundtrip."+format, 1)
		t.Tracef("bound %+v err=%v", got, err)
		if strings.ContainsAny(a.Name, "&=+;%<>\"' \t\n") || !isASCII(a.Name) || len(a.Tags) > 0 {
			t.NonTrivial(fmt.Sprintf("%+v|%s|%s|%s", a, format, method, via))
		}
		if err != nil {
			t.Fail("roundtrip-error", "%s round trip via %s (%s, %q) failed: %v; value %+v body %q", format, via, method, ctype, err, a, body)
			return
		}
		if !equalA(a, got) {
			t.Fail("roundtrip-differs", "%s round trip via %s (%s, %q): bound %+v, encoded %+v (body %q)", format, via, method, ctype, got, a, body)
			return
		}
		// the same request bound once more (a middleware and the handler both bind it): the parsed form
		// belongs to the request, binding must not have changed it
		if (format == "form" || format == "multipart" || format == "query") && via == "Auto" {
			var again bindA
			err2 := binding.Auto(req, &again)
			t.Count("roundtrip.bound_twice", 1)
			if err2 != nil || !equalA(a, again) {
				t.Fail("second-bind-of-the-same-request-differs", "%s request (%s, %q) bound twice through Auto: first %+v, second %+v (err=%v), encoded %+v", format, method, ctype, got, again, err2, a)
			}
		}
	})

	// ---- malformed input ----
	e.RunCases("malformed", e.N(8000, 2000000), 1, func(t *T) {
		r := t.R
		ct := pick(r, ctypes)
		method := pick(r, []string{"POST", "PUT", "PATCH", "POST", "GET"})
		var body []byte
		ctype := ct.CT
		switch r.IntN(4) {
		case 0: // random bytes
			n := r.IntN(40)
			body = make([]byte, n)
			for i := range body {
				body[i] = byte(r.IntN(256))
			}
		case 1, 2: // truncation / mutation of a valid body
			a := genBindA(r)
			switch ct.Kind {
			case "form":
				body = []byte(valuesOfA(a).Encode())
			case "multipart":
				ctype, body = multipartBody(valuesOfA(a))
			case "xml":
				body, _ = xml.Marshal(a)
			default:
				body, _ = json.Marshal(a)
			}
			if len(body) > 0 && (ct.Kind == "json" || ct.Kind == "xml") && chance(r, 1, 3) {
				// a complete document followed by something: white space / an XML comment are fine, anything else is not one document
				body = append(body, pick(r, []string{" garbage{{{", "{\"age\":2}", "\n\n", " \t", "garbage<<<", "<x/>", "<!-- trailing comment -->", "]", "0", "\x00"})...)
				t.Count("malformed.document_plus_tail", 1)
			} else if len(body) > 0 && (ct.Kind == "json" || ct.Kind == "xml") && chance(r, 1, 4) {
				// something in front of a complete document: white space, a byte order mark, an XML declaration or comment
				// are fine, anything else is not one document
				head := pick(r, []string{"garbage", "{\"age\":2}", "\n\n", " \t", "<!-- leading comment -->", "<?xml version=\"1.0\"?>\n", "\xef\xbb\xbf", "0", "}}}}::::", "garbage<<<", "x", "\x00", "<!x>", "<!>", "<!a b>", "<!DOC>", "<!xy>\n", "<!DOCTYPE bindA>\n", "<!ELEMENT a ANY>", "<?x?>", "<!---->"})
				body = append([]byte(head), body...)
				t.Count("malformed.head_plus_document", 1)
			} else if len(body) > 0 {
				if chance(r, 1, 2) {
					body = body[:r.IntN(len(body))]
				} else {
					for k := 0; k < 1+r.IntN(3); k++ {
						body[r.IntN(len(body))] = pick(r, []byte{'%', '{', '<', 0, '"', '&', ';', 0xff, '\n', '-'})
					}
				}
			}
		default: // type confusion
			body = []byte(pick(r, []string{`{"age":"x"}`, `{"age":1e99}`, `{"tags":5}`, `[]`, `null`, `<bindA><age>x</age></bindA>`, `<a>`, `age=x`, `age=1&age=2&nums=a`, `%zz=1`, `name=%`, `a=1;b=2`, `{"name":`, `--x`, ``, `<?xml version="1.0"?><bindA><nums>z</nums></bindA>`,
				// bracketed / dotted keys of the form decoder
				`tags[-1]=x`, `tags[0]=a&tags[2]=c`, `tags[99999999]=x`, `nums[a]=1`, `tags[0][1]=x`, `name[x]=1`, `tags[=x`, `[0]=x`, `tags[]=x`, `tags]=x`, `nums[-2147483649]=1`, `tags.0=x`, `name.x=1`, `ok[0]=true`, `age[0]=1`, `tags[1`, `tags[1]x=y`}))
		}
		if chance(r, 1, 20) {
			body = nil // Content-Length: 0
			t.Count("malformed.empty_body", 1)
		}
		if ct.Kind == "multipart" && ctype == "multipart/form-data" {
			ctype = pick(r, []string{"multipart/form-data; boundary=xyz", "multipart/form-data", "multipart/form-data; boundary=", "multipart/form-data; boundary", "multipart/form-data; boundary=xyz;;"})
		}
		t.Describe(func() any {
			return map[string]any{"method": method, "content_type": ctype, "body": fmt.Sprintf("%q", body)}
		})
		t.AutoSample()
		t.NonTrivial(fmt.Sprintf("%s|%s|%q", method, ctype, body))
		req := NewReqBody(method, "/p", ctype, body)
		req.URL.RawQuery = pick(r, []string{"", "age=x", "tags=1&tags=2", "%zz", "age=1", "tags[-1]=x", "nums[-1]=3", "tags[1][2]=x", "name[0]=n", "tags[99999999]=x", "nums[]=1", "[1]=x"})
		var got bindA
		var err error
		if pv, panicked := catch(func() { err = binding.Auto(req, &got) }); panicked {
			t.Fail("bind-panics", "malformed input (%s, Content-Type %q, body %q) made the binder panic: %v", method, ctype, body, pv)
			return
		}
		t.Count("malformed.checked", 1)
		t.Tracef("err=%v bound %+v", err, got)
		if err != nil {
			t.Count("malformed.rejected_with_error", 1)
		}
		// definitely malformed documents must yield an error
		if bodyMethods[method] && (ct.Kind == "json" || ct.Kind == "xml") {
			var probe bindA
			var ierr error
			if ct.Kind == "json" {
				ierr = json.Unmarshal(body, &probe)
				if ierr == nil && len(bytes.TrimSpace(body)) == 0 {
					ierr = fmt.Errorf("empty")
				}
			} else {
				ierr = xml.Unmarshal(body, &probe)
			}
			// an independent decoder refuses the whole document => the binder must not report success
			// (for XML the independent decoder is as lenient about text behind the root element as the
			// library's: strictDoc looks at what follows the first document itself)
			if ierr == nil && !strictDoc(ct.Kind, body) {
				ierr = fmt.Errorf("content before or after the single top-level value")
			}
			if ierr != nil && err == nil && (strictDocKinds[ct.Kind] || !jsonPrefixValid(ct.Kind, body)) {
				t.Fail("malformed-accepted", "%s body %q is refused by an independent decoder (%v) but the binder reported success, bound %+v", ct.Kind, body, ierr, got)
			}
		}
		// a url-encoded body that an independent parser refuses (bad escape, ';' separator) is malformed as
		// a whole: no partial bind
		if bodyMethods[method] && ct.Kind == "form" && err == nil {
			if _, perr := url.ParseQuery(string(body)); perr != nil {
				t.Fail("malformed-accepted", "form body %q is refused by an independent parser (%v) but the binder reported success, bound %+v", body, perr, got)
			}
		}
		if bodyMethods[method] && ct.Kind == "other" && err == nil {
			t.Fail("unsupported-type-accepted", "%s with Content-Type %q must be refused; bound %+v without error", method, ctype, got)
		}
		// a multipart Content-Type without a usable boundary cannot be read as a multipart form: an error
		if bodyMethods[method] && ct.Kind == "multipart" {
			if _, params, perr := mime.ParseMediaType(ctype); (perr != nil || params["boundary"] == "") && err == nil {
				t.Fail("malformed-multipart-header-accepted", "%s with Content-Type %q (no usable boundary parameter) and body %q: the binder reported success, bound %+v", method, ctype, body, got)
			}
		}
		// a negative slice index in a key of the selected source can never be bound: an error, not silence
		src := ""
		if !bodyMethods[method] {
			src = req.URL.RawQuery
		} else if ct.Kind == "form" {
			src = string(body)
		}
		if (strings.Contains(src, "tags[-") || strings.Contains(src, "nums[-")) && err == nil {
			t.Fail("malformed-key-accepted", "%s, Content-Type %q: the selected source %q has a key with a negative slice index, but the binder reported success, bound %+v", method, ctype, src, got)
		}
	})

	// ---- sequences over several binders (order must not matter), incl. body readers that fail ----
	e.RunCases("binder-sequences", e.N(3000, 300000), 1, func(t *T) {
		r := t.R
		n := 3 + r.IntN(6)
		var steps []string
		t.Describe(func() any { return map[string]any{"steps": steps} })
		t.AutoSample()
		t.NonTrivial(fmt.Sprint(t.Idx))
		for i := 0; i < n; i++ {
			age := 1 + r.IntN(90)
			name := pick(r, []string{"ann", "bob", "cy"}) + strconv.Itoa(r.IntN(100))
			kind := pick(r, []string{"query", "form", "header", "json", "xml", "multipart", "json-read-error", "xml-read-error"})
			var req *http.Request
			var got bindT
			var err error
			wantOK := true
			switch kind {
			case "query":
				req = NewReqBody("GET", "/p", "", nil)
				req.URL.RawQuery = url.Values{"q_age": {strconv.Itoa(age)}, "q_name": {name}}.Encode()
				err = binding.Auto(req, &got)
			case "form":
				req = NewReqBody("POST", "/p", "application/x-www-form-urlencoded", []byte(url.Values{"f_age": {strconv.Itoa(age)}, "f_name": {name}}.Encode()))
				err = binding.Auto(req, &got)
			case "multipart":
				ct, body := multipartBody(url.Values{"f_age": {strconv.Itoa(age)}, "f_name": {name}})
				req = NewReqBody("PUT", "/p", ct, body)
				err = binding.Auto(req, &got)
			case "header":
				req = NewReqBody("GET", "/p", "", nil)
				req.Header.Set("X-Age", strconv.Itoa(age))
				req.Header.Set("X-Name", name)
				err = binding.Header.Bind(req, &got)
			case "json", "json-read-error":
				body, _ := json.Marshal(map[string]any{"j_age": age, "j_name": name})
				req = NewReqBody("POST", "/p", "application/json", body)
				if kind == "json-read-error" {
					// the connection breaks after the complete document plus some padding has arrived
					req.Body = io.NopCloser(&failingReader{data: string(body) + "   "})
					req.ContentLength = -1
				}
				err = binding.Auto(req, &got)
			default:
				body, _ := xml.Marshal(bindT{Age: age, Name: name})
				req = NewReqBody("PATCH", "/p", "text/xml", body)
				if kind == "xml-read-error" {
					req.Body = io.NopCloser(&failingReader{data: string(body[:len(body)/2])})
					req.ContentLength = -1
					wantOK = false
				}
				err = binding.Auto(req, &got)
			}
			steps = append(steps, fmt.Sprintf("%s age=%d name=%s -> err=%v bound {%d %s}", kind, age, name, err, got.Age, got.Name))
			t.Count("sequences."+kind, 1)
			if kind == "json-read-error" {
				// the streaming decoder may or may not notice the late read error: both are fine,
				// but a success must carry THIS request's data
				if err == nil && (got.Age != age || got.Name != name) {
					t.Fail("bind-sequence-stale-data", "step %d (%s): bound {%d %q}, the request carried {%d %q}; history: %v", i, kind, got.Age, got.Name, age, name, steps)
					return
				}
				continue
			}
			if !wantOK {
				if err == nil {
					t.Fail("bind-sequence-truncated-accepted", "step %d (%s): a truncated document was bound without error: {%d %q}; history: %v", i, kind, got.Age, got.Name, steps)
					return
				}
				continue
			}
			if err != nil || got.Age != age || got.Name != name {
				t.Fail("bind-depends-on-earlier-binds", "step %d (%s): err=%v bound {%d %q}, the request carried {%d %q} - the same bind succeeds as the first one of a process; history: %v", i, kind, err, got.Age, got.Name, age, name, steps)
				return
			}
		}
	})

	// ---- validation ----
	e.RunCases("validation", e.N(4000, 300000), 1, func(t *T) {
		r := t.R
		mode := pick(r, []string{"recording", "recording", "stock", "disabled", "stock-nested"})
		format := pick(r, []string{"form", "json", "xml", "query", "multipart"})
		if mode == "stock-nested" {
			// the rules live in the elements of a slice of structs (JSON / XML bodies)
			format = pick(r, []string{"json", "xml"})
			o := bindOrder{Note: pick(r, []string{"", "n"})}
			valid := true
			for i, n := 0, 1+r.IntN(3); i < n; i++ {
				l := bindLine{Sku: pick(r, []string{"a", "b", "a", ""}), Qty: pick(r, []int{1, 2, 5, 0, -1})}
				if l.Sku == "" || l.Qty < 1 {
					valid = false
				}
				o.Lines = append(o.Lines, l)
			}
			var body []byte
			ctype := "application/json"
			if format == "json" {
				body, _ = json.Marshal(o)
			} else {
				ctype = "application/xml"
				body, _ = xml.Marshal(o)
			}
			t.Describe(func() any {
				return map[string]any{"validator": mode, "format": format, "order": fmt.Sprintf("%+v", o.Lines), "body": string(body)}
			})
			t.AutoSample()
			t.NonTrivial(fmt.Sprint(mode, format, o.Lines))
			binding.ResetValidator()
			defer binding.ResetValidator()
			var got bindOrder
			err := binding.Auto(NewReqBody("POST", "/p", ctype, body), &got)
			t.Count("validation.stock_nested", 1)
			t.Tracef("bound %+v err=%v", got.Lines, err)
			if valid != (err == nil) {
				t.Fail("stock-validator-verdict-nested", "%s bind of an order with lines %+v (rules required / required|min:1 on the line struct): expected valid=%v, bind returned err=%v", format, o.Lines, valid, err)
			}
			return
		}
		age := pick(r, []int{-3, 0, 1, 5})
		name := pick(r, []string{"", "n", "bob"})
		v := url.Values{"age": {strconv.Itoa(age)}, "name": {name}}
		emptySource := (format == "form" || format == "query" || format == "multipart") && chance(r, 1, 4)
		if emptySource {
			// nothing at all in the selected source: the struct keeps its zero value, which the
			// validator must still be asked about
			age, name, v = 0, "", url.Values{}
			t.Count("validation.empty_source", 1)
		}
		method, ctype := "POST", ""
		var body []byte
		switch format {
		case "form":
			ctype, body = "application/x-www-form-urlencoded", []byte(v.Encode())
		case "multipart":
			ctype, body = multipartBody(v)
		case "json":
			ctype = "application/json"
			body, _ = json.Marshal(map[string]any{"age": age, "name": name})
		case "xml":
			ctype = "text/xml"
			body, _ = xml.Marshal(bindV{Age: age, Name: name})
		default:
			method = "GET"
		}
		t.Describe(func() any {
			return map[string]any{"validator": mode, "format": format, "age": age, "name": name}
		})
		t.AutoSample()
		t.NonTrivial(fmt.Sprint(mode, format, age, name))
		req := NewReqBody(method, "/p", ctype, body)
		if format == "query" {
			req.URL.RawQuery = v.Encode()
		} else if emptySource {
			req.URL.RawQuery = "age=9&name=query-does-not-count-for-body-methods"
		}
		defer binding.ResetValidator()
		var got bindV
		switch mode {
		case "recording":
			rv := &recValidator{predict: func(i any) error {
				if b, ok := i.(*bindV); ok && b.Age < 1 {
					return fmt.Errorf("age must be positive")
				}
				return nil
			}}
			binding.Validator = rv
			err := binding.Auto(req, &got)
			t.Count("validation.recording", 1)
			if rv.calls != 1 || rv.last != any(&got) {
				t.Fail("validator-not-run-on-bound-object", "validator enabled: it was called %d times (on the bound object: %v) during a %s bind", rv.calls, rv.last == any(&got), format)
				return
			}
			if (age < 1) != (err != nil) {
				t.Fail("validator-verdict-ignored", "%s bind of age=%d: the validator's predicate says valid=%v but the bind returned err=%v", format, age, age >= 1, err)
				return
			}
			if err == nil && (got.Age != age || got.Name != name) {
				t.Fail("bound-value-differs", "%s bind: bound %+v, sent age=%d name=%q", format, got, age, name)
			}
		case "stock":
			binding.ResetValidator()
			if chance(t.R, 1, 4) {
				// the target reaches the struct through a second indirection (a nil struct pointer the
				// decoder allocates, or an interface holding the struct pointer): whatever the binder
				// makes of it, a bind that succeeds has validated the struct
				var gp *bindV
				var target any = &gp
				how := "**struct"
				if chance(t.R, 1, 2) {
					var boxed any = &got
					target, how = &boxed, "*interface{*struct}"
				}
				var err error
				if pv, panicked := catch(func() { err = binding.Auto(req, target) }); panicked {
					t.Fail("bind-panic", "%s bind into a %s target panicked: %v", format, how, pv)
					return
				}
				t.Count("validation.stock_indirect_target", 1)
				if err == nil && !(age >= 1 && name != "") {
					t.Fail("stock-validator-skipped", "%s bind of age=%d name=%q into a %s target succeeded although the struct violates its validate tags (required|min:1, required)", format, age, name, how)
				}
				return
			}
			err := binding.Auto(req, &got)
			t.Count("validation.stock", 1)
			valid := age >= 1 && name != ""
			if valid != (err == nil) {
				t.Fail("stock-validator-verdict", "%s bind of age=%d name=%q with validate tags (required|min:1, required): expected valid=%v, bind returned err=%v", format, age, name, valid, err)
			}
		default:
			rv := &recValidator{}
			binding.Validator = rv
			binding.DisableValidator()
			err := binding.Auto(req, &got)
			t.Count("validation.disabled", 1)
			if rv.calls != 0 {
				t.Fail("disabled-validator-called", "the validator is disabled but was called %d times", rv.calls)
				return
			}
			if err != nil {
				t.Fail("disabled-validator-error", "validator disabled: %s bind of age=%d name=%q failed: %v", format, age, name, err)
			}
		}
	})
	e.Require("decision.checked", 400)
	e.Require("roundtrip.form", 300)
	e.Require("roundtrip.multipart", 300)
	e.Require("roundtrip.json", 300)
	e.Require("roundtrip.xml", 300)
	e.Require("roundtrip.query", 300)
	e.Require("malformed.rejected_with_error", 1000)
	e.Require("validation.recording", 500)
	e.Require("validation.stock", 300)
	e.Require("validation.stock_indirect_target", 100)
	e.Require("validation.disabled", 300)
	e.Require("validation.empty_source", 200)
	e.Require("sequences.header", 500)
	e.Require("sequences.json-read-error", 500)
	e.Require("roundtrip.unknown_content_length", 500)
}

// (jsonPrefixValid is the earlier, laxer reading - "a valid first document followed by garbage is
// accepted by a streaming decoder" - and is no longer used for JSON and XML bodies: a body that is
// not exactly one document is malformed input.)
var strictDocKinds = map[string]bool{"json": true, "xml": true}

// strictDoc reports whether body is exactly one document: after the first decoded value only
// white space (JSON) / white space, comments and processing instructions (XML) may follow.
func strictDoc(kind string, body []byte) bool {
	var probe bindA
	if kind == "json" {
		dec := json.NewDecoder(bytes.NewReader(body))
		if dec.Decode(&probe) != nil {
			return false
		}
		_, err := dec.Token()
		return err == io.EOF
	}
	if xml.NewDecoder(bytes.NewReader(body)).Decode(&probe) != nil {
		return false
	}
	// one document: outside the root element only white space (a byte order mark in front), comments,
	// processing instructions and directives
	dec := xml.NewDecoder(bytes.NewReader(body))
	depth, seenRoot := 0, false
	for {
		tok, err := dec.Token()
		if err == io.EOF {
			return seenRoot && depth == 0
		}
		if err != nil {
			return false
		}
		switch x := tok.(type) {
		case xml.StartElement:
			if depth == 0 && seenRoot {
				return false
			}
			seenRoot = true
			depth++
		case xml.EndElement:
			depth--
		case xml.CharData:
			if depth == 0 {
				if !seenRoot {
					x = bytes.TrimPrefix(x, []byte("\xef\xbb\xbf"))
				}
				if len(bytes.TrimSpace(x)) != 0 {
					return false
				}
			}
		}
	}
}

func jsonPrefixValid(kind string, body []byte) bool {
	var probe bindA
	if kind == "json" {
		return json.NewDecoder(bytes.NewReader(body)).Decode(&probe) == nil
	}
	return xml.NewDecoder(bytes.NewReader(body)).Decode(&probe) == nil
}

var _ http.Header
