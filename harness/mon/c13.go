package mon

import (
	"fmt"
	"math/rand/v2"
	"strings"

	"github.com/gookit/rux"
)

func init() { Monitors["C13"] = runC13 }

func nHandlers(n int) []rux.HandlerFunc {
	hs := make([]rux.HandlerFunc, n)
	for i := range hs {
		hs[i] = func(c *rux.Context) {}
	}
	return hs
}

// an invalid definition, invalid for exactly one stated reason
type badDef struct {
	Reason string
	Desc   string
	Do     func()
}

func genBadDef(r *rand.Rand) badDef {
	h := func(c *rux.Context) {}
	router := rux.New()
	validPath := pick(r, []string{"/a", "/users/{id}", "/blog[/{id}]", "/x.y/{n:\\d+}", "/"})
	switch r.IntN(8) {
	case 0: // nil handler
		switch r.IntN(4) {
		case 0:
			return badDef{"nil-handler", fmt.Sprintf("GET(%q, nil)", validPath), func() { router.GET(validPath, nil) }}
		case 1:
			return badDef{"nil-handler", fmt.Sprintf("Add(%q, nil, POST)", validPath), func() { router.Add(validPath, nil, "POST") }}
		case 2:
			return badDef{"nil-handler", fmt.Sprintf("AddRoute(NewRoute(%q, nil))", validPath), func() { router.AddRoute(rux.NewRoute(validPath, nil)) }}
		default:
			return badDef{"nil-handler", fmt.Sprintf("Group{Any(%q, nil)}", validPath), func() { router.Group("/g", func() { router.Any(validPath, nil) }) }}
		}
	case 1: // method list empty after trimming
		ms := pick(r, [][]string{{""}, {" "}, {"", " ", "\t"}, {"  "}})
		return badDef{"empty-method", fmt.Sprintf("Add(%q, h, %q...)", validPath, ms), func() { router.Add(validPath, h, ms...) }}
	case 2: // unknown method token (never a case variant of a real one)
		tok := pick(r, []string{"DEL", "GE", "GETS", "POS", "GET,POST", "G", "PU", "OPTION", "HEA", "TRAC", "CONNEC", "PATC", "FOO", "LINK", "GET POST", "GET,", ",GET", "P", "T", "XGET", "PURGE"})
		extra := chance(r, 1, 2)
		return badDef{"unknown-method", fmt.Sprintf("Add(%q, h, %q) (with a valid method as well: %v)", validPath, tok, extra), func() {
			if extra {
				router.Add(validPath, h, "GET", tok)
			} else {
				router.Add(validPath, h, tok)
			}
		}}
	case 3: // capturing group inside a variable regex
		re := pick(r, []string{`(\d+)`, `(?:a)(b)`, `a(b)c`, `(?P<n>x)`, `\d+(x)?`, `(?:x)|(y)`, `((?:a))`})
		p := pick(r, []string{"/u/{id:%s}", "/{id:%s}", "/u/{a}/{id:%s}", "/u/{a:\\d+}/{id:%s}", "/u[/{id:%s}]", "/u/{a}[/{id:%s}]", "/x.y/{id:%s}.html"})
		path := fmt.Sprintf(p, re)
		if chance(r, 1, 4) {
			// the offending variable sits in a group prefix, the route's own path is plain text
			pre := fmt.Sprintf(pick(r, []string{"/u/{id:%s}", "/{id:%s}", "/u/{a}/{id:%s}"}), re)
			return badDef{"capturing-group", fmt.Sprintf("Group(%q){GET(\"/posts\", h)}", pre), func() { router.Group(pre, func() { router.GET("/posts", h) }) }}
		}
		return badDef{"capturing-group", fmt.Sprintf("GET(%q, h)", path), func() { router.GET(path, h) }}
	case 4: // optional part that is not at the end
		path := pick(r, []string{"/a[/b]/c", "/a[/{x}]/{y}", "/a[/b][/c]", "/a[/b]c", "/[a]/b", "/a[/{x}][/{y}]", "/a[[/b]/c]", "/{x}[/a]/{y}"})
		if chance(r, 1, 4) {
			// the optional part closes a group prefix: with any route below it, it is no longer at the end
			pre := pick(r, []string{"/api[/v1]", "/a[/{x}]", "/a[.html]", "/{x}[/a]"})
			child := pick(r, []string{"/users", "/x", "/b/c"}) // (not "/": without StrictLastSlash the joined path would end in the optional part again)
			return badDef{"optional-not-at-end", fmt.Sprintf("Group(%q){GET(%q, h)}", pre, child), func() { router.Group(pre, func() { router.GET(child, h) }) }}
		}
		return badDef{"optional-not-at-end", fmt.Sprintf("GET(%q, h)", path), func() { router.GET(path, h) }}
	case 5: // uncompilable pattern
		path := pick(r, []string{"/u/{id:[a-}", "/u/{id:*}", "/u/{id:a{2,1}}", "/u/{id:\\}", "/u/{id:(?}", "/u/{id:+}", "/u/{id:[}", "/u/{id:a**}", "/u/{id:\\p{Foo}}"})
		if chance(r, 1, 4) {
			return badDef{"uncompilable-regex", fmt.Sprintf("Group(%q){GET(\"/posts\", h)}", path), func() { router.Group(path, func() { router.GET("/posts", h) }) }}
		}
		return badDef{"uncompilable-regex", fmt.Sprintf("GET(%q, h)", path), func() { router.GET(path, h) }}
	case 6: // more handlers than the limit (63) on one route
		switch r.IntN(9) {
		case 6: // Any: the variadic middleware of the all-methods registrar
			n := 63 + r.IntN(8)
			if chance(r, 1, 2) {
				return badDef{"too-many-handlers", fmt.Sprintf("Group(/g, {Any(%q, h, %d middleware...)})", validPath, n), func() { router.Group("/g", func() { router.Any(validPath, h, nHandlers(n)...) }) }}
			}
			return badDef{"too-many-handlers", fmt.Sprintf("Any(%q, h, %d middleware...)", validPath, n), func() { router.Any(validPath, h, nHandlers(n)...) }}
		case 7, 8: // a top-level group (or controller) with a root prefix: Use inside it is group middleware
			n := 63 + r.IntN(8)
			root := pick(r, []string{"/", "", " ", "//"})
			if chance(r, 1, 3) {
				return badDef{"too-many-handlers", fmt.Sprintf("Controller(%q, {Use(%d); GET(%q, h)})", root, n, validPath), func() {
					router.Controller(root, c13Ctl(func(rt *rux.Router) { rt.Use(nHandlers(n)...); rt.GET(validPath, h) }))
				}}
			}
			return badDef{"too-many-handlers", fmt.Sprintf("Group(%q, {Use(%d); GET(%q, h)})", root, n, validPath), func() {
				router.Group(root, func() { router.Use(nHandlers(n)...); router.GET(validPath, h) })
			}}
		case 0:
			n := 63 + r.IntN(8)
			if chance(r, 1, 3) {
				n = pick(r, []int{127, 128, 130, 200, 255, 256, 257, 300, 319, 400, 512})
			}
			return badDef{"too-many-handlers", fmt.Sprintf("GET(%q, h, %d middleware...)", validPath, n), func() { router.GET(validPath, h, nHandlers(n)...) }}
		case 1:
			a := 30 + r.IntN(33)
			b := 63 - a + r.IntN(5)
			return badDef{"too-many-handlers", fmt.Sprintf("GET(%q, h, %d middleware...).Use(%d more)", validPath, a, b), func() { router.GET(validPath, h, nHandlers(a)...).Use(nHandlers(b)...) }}
		case 2:
			n := 63 + r.IntN(8)
			if chance(r, 1, 3) {
				n = pick(r, []int{127, 128, 130, 200, 255, 256, 257, 300, 319, 400, 512})
			}
			return badDef{"too-many-handlers", fmt.Sprintf("Group(/g, {GET(%q, h)}, %d middleware...)", validPath, n), func() { router.Group("/g", func() { router.GET(validPath, h) }, nHandlers(n)...) }}
		case 3:
			a := 1 + r.IntN(62)
			b := 63 - a + r.IntN(5)
			return badDef{"too-many-handlers", fmt.Sprintf("Group(/g, {GET(%q, h, %d middleware)}, %d middleware)", validPath, b, a), func() {
				router.Group("/g", func() { router.GET(validPath, h, nHandlers(b)...) }, nHandlers(a)...)
			}}
		case 4:
			a := 1 + r.IntN(62)
			b := 63 - a + r.IntN(5)
			if b < 1 {
				b = 1
			}
			return badDef{"too-many-handlers", fmt.Sprintf("route := NewRoute(%q, h).Use(%d); Group(/g, {AddRoute(route)}, %d middleware)", validPath, b, a), func() {
				route := rux.NewRoute(validPath, h).Use(nHandlers(b)...)
				router.Group("/g", func() { router.AddRoute(route) }, nHandlers(a)...)
			}}
		default:
			a := 1 + r.IntN(40)
			b := 63 - a + r.IntN(5)
			return badDef{"too-many-handlers", fmt.Sprintf("Group(/g, {Use(%d); GET(%q, h)}, %d middleware)", b, validPath, a), func() {
				router.Group("/g", func() { router.Use(nHandlers(b)...); router.GET(validPath, h) }, nHandlers(a)...)
			}}
		}
	default: // options changed after routes exist
		opt := pick(r, []func(*rux.Router){rux.EnableCaching, rux.StrictLastSlash, rux.HandleMethodNotAllowed, rux.UseEncodedPath, rux.MaxNumCaches(3), rux.InterceptAll("/x")})
		return badDef{"options-after-routes", fmt.Sprintf("GET(%q, h); WithOptions(...)", validPath), func() {
			router.GET(validPath, h)
			router.WithOptions(opt)
		}}
	}
}

// c13Ctl is a controller whose AddRoutes is the given function
type c13Ctl func(*rux.Router)

func (f c13Ctl) AddRoutes(r *rux.Router) { f(r) }

var fuzzAlphabet = []string{"/", "{", "}", "[", "]", "(", ")", ":", ".", "\\", "d", "+", "*", "?", "|", "a", "1", " ", "{id}", "{n:\\d+}", "[/", "]", "/a", "{x:", "(?:", ")", "(a|b)", "(x)", "/(new|old)", "-(a|b)"}

func fuzzPattern(r *rand.Rand) string {
	if chance(r, 1, 3) {
		// mutate a valid pattern
		p := GenPattern(r, 0).String()
		k := 1 + r.IntN(2)
		for i := 0; i < k; i++ {
			pos := r.IntN(len(p) + 1)
			switch r.IntN(3) {
			case 0:
				p = p[:pos] + pick(r, fuzzAlphabet) + p[pos:]
			case 1:
				if pos < len(p) {
					p = p[:pos] + p[pos+1:]
				}
			case 2:
				if pos < len(p) {
					p = p[:pos] + pick(r, fuzzAlphabet) + p[pos+1:]
				}
			}
		}
		return p
	}
	n := r.IntN(9)
	var b strings.Builder
	if chance(r, 3, 4) {
		b.WriteByte('/')
	}
	for i := 0; i < n; i++ {
		b.WriteString(pick(r, fuzzAlphabet))
	}
	return b.String()
}

var hostileMethods = []string{"GET", "POST", "HEAD", "OPTIONS", "", " ", "get", "GET/x", "\xff\xfe", "GETPOST", "GET ", "PUT", "TRACE", "DELETE", "CONNECT", "PATCH", "PURGE", "PROPFIND", "LINK"}

func hostilePaths(r *rand.Rand, pattern string) []string {
	ps := []string{"", " ", "\t\n", "//", "/", "/ ", " /", "///", "/a", "/a/", "/1", "/a/1", "/a/b/c/d", "\xff\xfe", "/\xff", strings.Repeat("a/", 2048), "/{id}", "/*", "a", "%", "/%zz", "/a//b", "/.", "/..", "/a\x00b"}
	// strings derived from the pattern itself
	strip := strings.NewReplacer("{", "", "}", "", "[", "", "]", "", "(", "", ")", "", "?", "", ":", "", "\\", "", "+", "", "*", "", "|", "")
	ps = append(ps, pattern, strip.Replace(pattern), strings.TrimRight(strip.Replace(pattern), "/")+"/1", strip.Replace(pattern)+"/1/2")
	for i := 0; i < 4; i++ {
		ps = append(ps, RandomPath(r))
	}
	return ps
}

func runC13(e *Env) {
	e.Rule = "(a) rejection by construction: definitions invalid for exactly one stated reason (nil handler via GET/Add/AddRoute/Any-in-group; method list empty after trimming; unknown method tokens incl. prefixes and comma lists; capturing group in a variable regex in first/second/optional position; optional part not at the end; uncompilable regex; >= 63 handlers via variadic middleware (verb helpers and Any), Route.Use, Router.Use inside a top-level Group/Controller with a root prefix, group middleware, Router.Use inside a group and combinations incl. a pre-built route added inside a group; WithOptions after a route exists) must panic at registration, and their valid neighbours (62 handlers, case variants of methods, non-capturing groups) must be accepted. (b) totality after acceptance: fuzzed pattern strings (random over a metacharacter alphabet, and mutations of valid patterns), fuzzed method lists, handler counts 0..70, all option combinations incl. caching on a router without routes and InterceptAll; whatever registration accepts is probed with Match, QuickMatch and ServeHTTP over hostile methods and paths (empty, blank, non-UTF-8, 4 KiB, derived from the pattern): no panic out of the router. Non-trivial: every bad definition; every accepted fuzzed definition containing a metacharacter; distinct by definition. Handler counts up to 512; a quarter of the fuzzed definitions are registered for all nine methods; request methods outside the nine. A sixth of the totality cases register their route through an application-defined option function at a random position of the list given to New (the options behind it meet a router that already has a route). A quarter of the capturing-group / misplaced-optional / uncompilable-regex definitions carry the offending text in a Group prefix above a plain-text route. A quarter of the accepted routes are handed to AddRoute a second time (same or another router, half of them below a group prefix that is refused) before the lookups."
	e.Assumptions = []string{
		"the handler limit is the per-route limit the registration code documents (group + route middleware); global middleware added with Router.Use at top level is not counted by it",
		"a panic with any message counts as rejection",
	}
	e.RunCases("rejection", e.N(20000, 1000000), 0, func(t *T) {
		bd := genBadDef(t.R)
		t.Describe(func() any { return map[string]any{"reason": bd.Reason, "definition": bd.Desc} })
		t.AutoSample()
		t.NonTrivial(bd.Desc)
		t.Count("rejection."+bd.Reason, 1)
		pvv, panicked0 := catch(bd.Do)
		t.Tracef("registration panicked=%v: %v", panicked0, pvv)
		if panicked := panicked0; !panicked {
			t.Fail("accepted-invalid:"+bd.Reason, "invalid definition (%s) was accepted at registration: %s", bd.Reason, bd.Desc)
		}
	})
	// valid neighbours of the invalid definitions must be accepted (keeps the generator honest)
	e.RunCases("valid-neighbours", 64, 1, func(t *T) {
		h := func(c *rux.Context) {}
		type nb struct {
			desc string
			do   func(r *rux.Router)
		}
		nbs := []nb{
			{"62 variadic middleware", func(r *rux.Router) { r.GET("/a", h, nHandlers(62)...) }},
			{"group 31 + route 31", func(r *rux.Router) { r.Group("/g", func() { r.GET("/a", h, nHandlers(31)...) }, nHandlers(31)...) }},
			{"lower-case method", func(r *rux.Router) { r.Add("/a", h, "get", " Post ") }},
			{"non-capturing group", func(r *rux.Router) { r.GET("/u/{id:(?:a|b)+}", h) }},
			{"nested optional at the end", func(r *rux.Router) { r.GET("/a[/{x}[/{y}]]", h) }},
			{"options before routes", func(r *rux.Router) { r.WithOptions(rux.EnableCaching); r.GET("/a", h) }},
			{"default method", func(r *rux.Router) { r.Add("/a", h) }},
		}
		n := nbs[int(t.Idx)%len(nbs)]
		t.Describe(func() any { return n.desc })
		if pv, panicked := catch(func() { n.do(rux.New()) }); panicked {
			t.Fail("valid-neighbour-rejected", "a valid definition (%s) panicked at registration: %v", n.desc, pv)
		}
		t.Count("valid_neighbours.accepted", 1)
	})

	e.RunCases("totality", e.N(25000, 2000000), 0, func(t *T) {
		r := t.R
		pattern := fuzzPattern(r)
		var methods []string
		for i, n := 0, r.IntN(3); i < n; i++ {
			methods = append(methods, pick(r, []string{"GET", "POST", "get", " put ", "HEAD", "OPTIONS", "DEL", "", "FOO", "GET,POST", "TRACE"}))
		}
		if chance(r, 1, 4) {
			methods = append([]string{}, AllMethods...) // every supported method (like Any)
		}
		nh := pick(r, []int{0, 0, 1, 2, 5, 30, 61, 62, 63, 70})
		var opts []func(*rux.Router)
		var optDesc []string
		add := func(name string, o func(*rux.Router)) {
			if chance(r, 1, 3) {
				opts = append(opts, o)
				optDesc = append(optDesc, name)
			}
		}
		add("EnableCaching", rux.EnableCaching)
		add("CachingWithNum(1)", rux.CachingWithNum(1))
		add("MaxNumCaches(0)", rux.MaxNumCaches(0))
		add("StrictLastSlash", rux.StrictLastSlash)
		add("HandleMethodNotAllowed", rux.HandleMethodNotAllowed)
		add("HandleFallbackRoute", rux.HandleFallbackRoute)
		add("UseEncodedPath", rux.UseEncodedPath)
		if chance(r, 1, 8) {
			ip := pick(r, []string{" ", "x", "/x/", "//", "\t", "/{id}", "/a b"})
			opts = append(opts, rux.InterceptAll(ip))
			optDesc = append(optDesc, fmt.Sprintf("InterceptAll(%q)", ip))
		}
		noRoutes := chance(r, 1, 12)
		inGroup := ""
		if chance(r, 1, 4) {
			inGroup = pick(r, []string{"/g", "", " ", "g/", "//", "/g[x]", "/{p}"})
		}
		var probe string
		t.Describe(func() any {
			return map[string]any{"pattern": pattern, "methods": methods, "middleware": nh, "options": optDesc, "router_without_routes": noRoutes, "group_prefix": inGroup, "failing_probe": probe}
		})
		t.AutoSample()
		var router *rux.Router
		regViaOption := !noRoutes && chance(r, 1, 6)
		if regViaOption {
			// the application registers its routes through an option function of its own, somewhere in
			// the list handed to New: the options behind it are applied to a router that has a route
			k := r.IntN(len(opts) + 1)
			optDesc = append(optDesc, fmt.Sprintf("(the route is registered by an application-defined option at position %d of the list given to New)", k))
			regOpt := func(rt *rux.Router) {
				reg := func() { rt.Add(pattern, func(c *rux.Context) {}, methods...).Use(nHandlers(nh)...) }
				if inGroup != "" {
					rt.Group(inGroup, reg)
					return
				}
				reg()
			}
			all := append(append(append([]func(*rux.Router){}, opts[:k]...), regOpt), opts[k:]...)
			t.Count("totality.route_registered_by_an_option", 1)
			t.Count("totality.definitions", 1)
			if _, panicked := catch(func() { router = rux.New(all...) }); panicked || router == nil {
				t.Count("totality.rejected", 1)
				return // refused at construction: there is no router to look anything up on
			}
			t.Count("totality.accepted", 1)
			t.NonTrivial(pattern + fmt.Sprint(methods, nh, optDesc, inGroup))
		} else if chance(r, 1, 3) {
			// the same options applied after construction (legal while no route exists)
			router = rux.New()
			router.WithOptions(opts...)
			optDesc = append(optDesc, "(applied through WithOptions after New)")
			t.Count("totality.options_after_new", 1)
		} else {
			router = rux.New(opts...)
		}
		accepted := regViaOption
		if regViaOption {
		} else if !noRoutes {
			var added *rux.Route
			reg := func() {
				added = router.Add(pattern, func(c *rux.Context) {}, methods...)
				added.Use(nHandlers(nh)...)
			}
			if inGroup != "" {
				inner := reg
				reg = func() { router.Group(inGroup, inner) }
			}
			_, panicked := catch(reg)
			accepted = !panicked
			if accepted && added != nil && chance(r, 1, 4) {
				// the application hands the very same *Route to a router once more (a second router, or by mistake
				// the same one) and survives whatever that call does: the lookups on the first router go on
				target := router
				if chance(r, 1, 2) {
					target = rux.New()
				}
				if chance(r, 1, 2) {
					// ... below a group prefix that makes the definition invalid there (refused by a panic)
					bad := pick(r, []string{"/{ver:(v1|v2)}", "/{a:(x)}/b", "/[x]/y", "/{v:[}"})
					_, _ = catch(func() { target.Group(bad, func() { target.AddRoute(added) }) })
					optDesc = append(optDesc, "(second registration below the group prefix "+bad+")")
				} else {
					_, _ = catch(func() { target.AddRoute(added) })
				}
				optDesc = append(optDesc, "(the accepted *Route was handed to AddRoute a second time, the outcome of that call ignored)")
				t.Count("totality.route_object_registered_twice", 1)
			}
			t.Count("totality.definitions", 1)
			if accepted {
				t.Count("totality.accepted", 1)
				if strings.ContainsAny(pattern, "{}[]()\\*+?|") {
					t.NonTrivial(pattern + fmt.Sprint(methods, nh, optDesc, inGroup))
				}
			} else {
				t.Count("totality.rejected", 1)
				// a rejected definition must not leave a half-registered route behind that
				// panics later: keep probing the router
			}
		} else {
			t.Count("totality.router_without_routes", 1)
			t.NonTrivial(fmt.Sprint("noroutes", optDesc))
		}
		for _, path := range hostilePaths(r, pattern) {
			for _, m := range hostileMethods {
				if !chance(r, 1, 3) {
					continue
				}
				probe = fmt.Sprintf("%q %q", m, path)
				t.Count("totality.probes", 1)
				if pv, panicked := catch(func() { router.Match(m, path) }); panicked {
					t.Fail("match-panics", "definition accepted=%v; Match(%q, %q) panicked: %v", accepted, m, path, pv)
					return
				}
				if pv, panicked := catch(func() { router.QuickMatch(m, path) }); panicked {
					t.Fail("quickmatch-panics", "definition accepted=%v; QuickMatch(%q, %q) panicked: %v", accepted, m, path, pv)
					return
				}
				req := NewReq(m, path)
				if _, pv, panicked := Serve(router, req); panicked {
					t.Fail("servehttp-panics", "definition accepted=%v; ServeHTTP(%q %q) panicked: %v", accepted, m, path, pv)
					return
				}
			}
		}
	})
	for _, reason := range []string{"nil-handler", "empty-method", "unknown-method", "capturing-group", "optional-not-at-end", "uncompilable-regex", "too-many-handlers", "options-after-routes"} {
		e.Require("rejection."+reason, 500)
	}
	e.Require("valid_neighbours.accepted", 50)
	e.Require("totality.router_without_routes", 300)
	e.Require("totality.options_after_new", 1000)
	e.Require("totality.route_registered_by_an_option", 500)
	if e.replay == nil {
		acc, defs := e.Counter("totality.accepted"), e.Counter("totality.definitions")
		if defs > 0 && acc*5 < defs {
			e.Inconclusive("only %d of %d fuzzed definitions were accepted (< 20%%): the generator is degenerate", acc, defs)
		}
	}
}
