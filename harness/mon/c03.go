package mon

import (
	"bufio"
	"encoding/json"
	"errors"
	"fmt"
	"github.com/gookit/rux/pkg/handlers"
	"math/rand/v2"
	"os"
	"os/exec"
	"path/filepath"
	"runtime"
	"sort"
	"strings"
	"sync"
	"sync/atomic"
	"time"

	"github.com/gookit/rux"
)

func init() {
	Monitors["C03"] = runC03
	Monitors["C03B"] = runC03B // the free-running stress part, executed by the -race binary
}

// ---------------------------------------------------------------------------
// Monitor A: handler-boundary scheduler
// ---------------------------------------------------------------------------

// sched lets exactly one request goroutine run at a time. A request stops at
// every "point" (entry of each of our handlers, and after its Next() returned)
// and continues only when the schedule grants it the next step.
type sched struct {
	grant   []chan struct{}
	event   chan schedEvent // point reached / request finished
	started []bool
	done    []bool
	steps   int
}

type schedEvent struct {
	rid  int
	done bool
}

func newSched(n int) *sched {
	s := &sched{event: make(chan schedEvent), started: make([]bool, n), done: make([]bool, n)}
	for i := 0; i < n; i++ {
		s.grant = append(s.grant, make(chan struct{}))
	}
	return s
}

// point is called by a handler of request rid.
func (s *sched) point(rid int) {
	s.event <- schedEvent{rid: rid}
	<-s.grant[rid]
}

var errSchedStuck = fmt.Errorf("scheduler step did not return within the watchdog")

// step lets request rid run to its next point or to completion.
func (s *sched) step(rid int, start func()) error {
	if s.done[rid] {
		return nil
	}
	s.steps++
	if !s.started[rid] {
		s.started[rid] = true
		go func() {
			start()
			s.event <- schedEvent{rid: rid, done: true}
		}()
	} else {
		s.grant[rid] <- struct{}{}
	}
	select {
	case ev := <-s.event:
		if ev.rid != rid {
			return fmt.Errorf("scheduler: event from request %d while request %d was running", ev.rid, rid)
		}
		if ev.done {
			s.done[rid] = true
		}
		return nil
	case <-time.After(30 * time.Second):
		return errSchedStuck
	}
}

// schedPre / schedPost are installed as Pre/Post of every handler of a C03 program.
func c03Arm(p *Program) {
	arm := func(m *MW) {
		id, isMain := m.ID, m.Main
		m.Pre = func(c *rux.Context, rec *Rec) {
			if s, ok := rec.Extra["sched"].(*sched); ok {
				s.point(rec.Extra["rid"].(int))
			}
			if c.Req.Header.Get("X-Panic") == id {
				rec.Ev("panic(%s)", id)
				panic("prologue panic in " + id)
			}
			if isMain && c.Req.Header.Get("X-Redispatch") == id {
				// prologue: an internal redirect, the router dispatches this request once more
				to := c.Req.Header.Get("X-Redispatch-To")
				c.Req.Header.Del("X-Redispatch")
				c.Req.URL.Path = to
				rec.Ev("redispatch(%s -> %s)", id, to)
				c.Router().HandleContext(c)
				return
			}
			rec.Ev("params(%s){%s}", id, fmtParams(copyParams(c.Params)))
			if c.Params != nil {
				// a handler that keeps a note of its own next to the path parameters (whenever the
				// request has a parameter map): the map is this request's, nobody else sees the note
				c.Params["note-of-"+id] = c.Req.Method + " " + c.Req.URL.Path
			}
			if bg, ok := rec.Extra["bg"].(*sync.WaitGroup); ok && isMain {
				// stress mode: "background work" keeps a Copy() of the context beyond the request
				// and touches it while other requests are served from the pooled contexts
				c.Set("owner", id)
				ownErr := errors.New("error recorded by " + id)
				c.AddError(ownErr)
				cp := c.Copy()
				ownParams := fmtParams(copyParams(c.Params))
				bg.Add(1)
				go func() {
					defer bg.Done()
					for i := 0; i < 6; i++ {
						if got := fmtParams(copyParams(cp.Params)); got != ownParams {
							rec.Ev("copy-of-context-shows-foreign-params{%s}", got)
						}
						cp.Set("bg-step", i)
						if v, _ := cp.Get("owner"); v != id {
							rec.Ev("copy-of-context-shows-foreign-data(%v)", v)
						}
						if e := cp.FirstError(); e != ownErr {
							rec.Ev("copy-of-context-shows-foreign-error(%v)", e)
						}
						runtime.Gosched()
					}
				}()
			}
			if isMain {
				c.WriteString(id + "{" + fmtParams(copyParams(c.Params)) + "}")
			}
		}
		m.Post = func(c *rux.Context, rec *Rec) {
			if s, ok := rec.Extra["sched"].(*sched); ok {
				s.point(rec.Extra["rid"].(int))
			}
			rec.Ev("params-after(%s){%s}", id, fmtParams(copyParams(c.Params)))
		}
	}
	for _, m := range p.Globals {
		arm(m)
	}
	for _, rs := range p.Routes {
		for _, m := range rs.Chain {
			arm(m)
		}
		arm(rs.Main)
	}
	for _, m := range p.NotFoundH {
		arm(m)
	}
	for _, m := range p.NotAllowH {
		m := m
		arm(m)
		// a not-allowed handler works on the list of allowed methods it is given (its own list)
		inner := m.Pre
		m.Pre = func(c *rux.Context, rec *Rec) {
			if v, ok := c.Get(rux.CTXAllowedMethods); ok {
				if list, _ := v.([]string); len(list) > 0 {
					cp := append([]string{}, list...)
					sort.Strings(cp)
					rec.Ev("allowed(%s)=%v", m.ID, cp)
					// (the order in which the router lists the methods is not fixed: sort before editing,
					// so that the edit - and what a later handler of the same request finds - is deterministic)
					sort.Strings(list)
					list[0] = strings.ToLower(list[0])
				}
			}
			inner(c, rec)
		}
	}
}

// c03Program draws a router shape for the concurrency monitors.
func c03Program(r *rand.Rand) *Program {
	g := &progGen{maxDepth: 2, dynamic: true, maxMW: 2}
	// mostly handlers that call Next once: the interesting part here is the interleaving
	g.nexts = func() int {
		if chance(r, 1, 10) {
			return 0
		}
		return 1
	}
	p := GenProgram(r, g)
	// global middleware added by 1..4 separate Use calls up front (len < cap and len == cap both occur)
	if chance(r, 2, 3) {
		k := 1 + r.IntN(4)
		var front []Stmt
		for i := 0; i < k; i++ {
			g.nMW++
			front = append(front, UseStmt{[]*MW{{ID: fmt.Sprintf("g%d", g.nMW), Nexts: 1}}})
		}
		p.Body = append(front, p.Body...)
	}
	p.CacheCap = pick(r, []int{-1, -1, 1, 2, 3, 1000})
	p.NotAllowed = chance(r, 2, 3)
	p.PanicHook = chance(r, 1, 3)
	p.Model()
	c03Arm(p)
	return p
}

// c03Prologue: on routers with an OnPanic hook, a few requests panic (and are
// recovered by the hook) before the concurrent phase starts. The statement is
// about requests served "once registration is finished" whatever happened before.
func c03Prologue(t *T, p *Program, router *rux.Router, reqs []c09Req) bool {
	// internal redirects (a main handler re-dispatches its request through HandleContext)
	if t.Idx%2 == 0 {
		for i := 0; i < 2; i++ {
			q := reqs[(int(t.Idx)/2+i)%len(reqs)]
			if q.Kind != "route" || len(q.Chain) == 0 || !q.Chain[len(q.Chain)-1].Main {
				continue
			}
			// the same path again: the second dispatch runs a chain of the same length (what a
			// re-dispatch into a shorter chain does to the outer Next() loop is outside C03)
			to := q.Path
			req := NewReq(q.Method, q.Path)
			req.Header.Set("X-Redispatch", q.Chain[len(q.Chain)-1].ID)
			req.Header.Set("X-Redispatch-To", to)
			if _, _, escaped := Serve(router, req); escaped {
				t.Count("prologue.redispatch_panicked", 1) // not a statement of C03; the concurrent phase still follows
				continue
			}
			t.Count("prologue.redispatches", 1)
		}
	}
	if !p.PanicHook {
		return true
	}
	k := 1 + int(t.Idx%3)
	for i := 0; i < k; i++ {
		q := reqs[(int(t.Idx)+i)%len(reqs)]
		if len(q.Chain) == 0 {
			continue
		}
		site := q.Chain[(int(t.Idx)+i)%len(q.Chain)]
		req := NewReq(q.Method, q.Path)
		req.Header.Set("X-Panic", site.ID)
		if _, pv, escaped := Serve(router, req); escaped {
			t.Fail("prologue-panic-escaped", "an OnPanic hook is installed but a panic escaped ServeHTTP: %v", pv)
			return false
		}
		t.Count("prologue.recovered_panics", 1)
	}
	return true
}

// c03Requests: the request kinds of the statement.
func c03Requests(p *Program, r *rand.Rand) []c09Req {
	var qs []c09Req
	for _, rs := range p.Routes {
		chain := append(append(append([]*MW{}, p.Globals...), rs.Chain...), rs.Main)
		qs = append(qs, c09Req{Kind: "route", Method: rs.Method, Path: rs.RequestPath(r), Chain: chain})
		if strings.Contains(rs.FullPath, "{id}") {
			// same dynamic route, different ids
			qs = append(qs, c09Req{Kind: "route", Method: rs.Method, Path: strings.ReplaceAll(rs.FullPath, "{id}", "other"), Chain: chain})
		}
		if rs.Method == "GET" {
			qs = append(qs, c09Req{Kind: "head_get", Method: "HEAD", Path: rs.RequestPath(r), Chain: chain})
		}
	}
	qs = append(qs, c09Req{Kind: "not_found", Method: "GET", Path: "/no/such/route", Chain: append(append([]*MW{}, p.Globals...), p.NotFoundH...)})
	rs := pick(r, p.Routes)
	kind := "not_found"
	if p.NotAllowed {
		kind = "not_allowed"
	}
	qs = append(qs, c09Req{Kind: kind, Method: "TRACE", Path: rs.RequestPath(r), Chain: append(append([]*MW{}, p.Globals...), p.NotAllowH...)})
	return qs
}

func c03SchedCase(t *T) {
	r := t.R
	p := c03Program(r)
	pool := c03Requests(p, r)
	n := 2 + r.IntN(3)
	if chance(r, 1, 2) {
		n = 2
	}
	var reqs []c09Req
	for i := 0; i < n; i++ {
		q := pick(r, pool)
		if i > 0 && chance(r, 1, 4) {
			q = reqs[0] // a repeat (cache hit when caching is on)
		}
		reqs = append(reqs, q)
	}
	var word []int
	t.AutoSample()
	t.Describe(func() any {
		d := p.Describe().(map[string]any)
		var rs []string
		for i, q := range reqs {
			rs = append(rs, fmt.Sprintf("req%d: %s", i, q))
		}
		d["requests"] = rs
		d["schedule"] = word
		return d
	})

	// solo runs: every request alone on its own fresh router
	solo := make([]string, n)
	points := make([]int, n)
	for i, q := range reqs {
		var fresh *rux.Router
		if pv, panicked := catch(func() { fresh = p.Build() }); panicked {
			t.Fail("registration-panic", "a valid registration program panicked: %v", pv)
			return
		}
		rec, pv, panicked := Serve(fresh, NewReq(q.Method, q.Path))
		if panicked {
			t.Fail("solo-panic", "request %s panicked when served alone: %v", q, pv)
			return
		}
		solo[i] = rec.Outcome()
		for _, ev := range rec.Events {
			if strings.HasPrefix(ev, "enter(") || strings.HasPrefix(ev, "leave(") {
				points[i]++ // one point per enter (Pre) and per leave (Post)
			}
		}
	}

	// choose the schedule: every request needs points+1 grants
	var letters []int
	for i := range reqs {
		for k := 0; k <= points[i]; k++ {
			letters = append(letters, i)
		}
	}
	switch x := r.IntN(10); {
	case x < 4:
		r.Shuffle(len(letters), func(i, j int) { letters[i], letters[j] = letters[j], letters[i] })
	case x < 8:
		// park early, resume late: every request is started and parked at an early point, then
		// the others run to completion in some order
		var early, late []int
		depth := 1 + r.IntN(3)
		cnt := make([]int, n)
		for _, l := range letters {
			if cnt[l] < depth {
				early = append(early, l)
			} else {
				late = append(late, l)
			}
			cnt[l]++
		}
		r.Shuffle(len(early), func(i, j int) { early[i], early[j] = early[j], early[i] })
		// late part: request by request, in random request order
		order := r.Perm(n)
		sort.SliceStable(late, func(a, b int) bool { return indexOfInt(order, late[a]) < indexOfInt(order, late[b]) })
		letters = append(early, late...)
	default:
		// round robin
		var rr []int
		cnt := make([]int, n)
		for len(rr) < len(letters) {
			for i := 0; i < n; i++ {
				if cnt[i] <= points[i] {
					rr = append(rr, i)
					cnt[i]++
				}
			}
		}
		letters = rr
	}
	word = letters
	c03RunSchedule(t, p, reqs, solo, word)
}

func indexOfInt(xs []int, x int) int {
	for i, y := range xs {
		if y == x {
			return i
		}
	}
	return -1
}

// c03RunSchedule executes one interleaving and checks it against the solo runs.
func c03RunSchedule(t *T, p *Program, reqs []c09Req, solo []string, word []int) {
	n := len(reqs)
	var router *rux.Router
	if pv, panicked := catch(func() { router = p.Build() }); panicked {
		t.Fail("registration-panic", "a valid registration program panicked: %v", pv)
		return
	}
	if !c03Prologue(t, p, router, reqs) {
		return
	}
	s := newSched(n)
	recs := make([]*Rec, n)
	pvs := make([]any, n)
	panicked := make([]bool, n)
	for i := range recs {
		recs[i] = NewRec()
		recs[i].Extra = map[string]any{"sched": s, "rid": i}
	}
	start := func(i int) func() {
		return func() {
			pvs[i], panicked[i] = catch(func() { router.ServeHTTP(recs[i], NewReq(reqs[i].Method, reqs[i].Path)) })
		}
	}
	inflightMax := 0
	run := func(rid int) bool {
		if err := s.step(rid, start(rid)); err != nil {
			if err == errSchedStuck {
				t.E.Inconclusive("C03 scheduler: %v (case %d)", err, t.Idx)
			} else {
				t.Fail("scheduler-protocol", "%v", err)
			}
			return false
		}
		// contexts of simultaneously in-flight requests must be distinct
		inflight := 0
		seen := map[*rux.Context]int{}
		for i := 0; i < n; i++ {
			if s.started[i] && !s.done[i] {
				inflight++
				if c := recs[i].CtxPtr; c != nil {
					if j, dup := seen[c]; dup {
						t.Fail("inflight-requests-share-context", "requests %d (%s) and %d (%s) are in flight at the same time and were handed the same *Context", j, reqs[j], i, reqs[i])
						return false
					}
					seen[c] = i
				}
			}
		}
		if inflight > inflightMax {
			inflightMax = inflight
		}
		return true
	}
	for _, rid := range word {
		if !run(rid) {
			return
		}
	}
	for i := 0; i < n; i++ { // drain whatever the word left unfinished
		for guard := 0; !s.done[i] && guard < 1000; guard++ {
			if !run(i) {
				return
			}
		}
	}
	t.Count("sched.schedules", 1)
	t.Count("sched.steps", int64(s.steps))
	if inflightMax >= 2 {
		t.Count("sched.schedules_with_overlap", 1)
		t.NonTrivial(fmt.Sprint(p.Describe(), reqs, word))
	}
	for _, q := range reqs {
		t.Count("sched.req_"+q.Kind, 1)
	}
	if p.CacheCap >= 0 {
		t.Count("sched.cache_on", 1)
	}
	for i := range reqs {
		t.Tracef("request %d (%s) under schedule %v: %s", i, reqs[i], word, recs[i].Outcome())
	}
	for i := range reqs {
		if panicked[i] {
			t.Fail("interleaved-request-panicked", "request %d (%s) panicked under the interleaving %v: %v; alone it does not", i, reqs[i], word, pvs[i])
			return
		}
		if got := recs[i].Outcome(); got != solo[i] {
			t.Fail("interleaving-changes-outcome", "request %d (%s) under the interleaving %v:\n observed: %s\n alone:    %s", i, reqs[i], word, got, solo[i])
			return
		}
	}
	if c := router.VerifCachedRoutes(); c != nil {
		if err := c.VerifCheck(); err != nil {
			t.Fail("cache-structure-after-interleaving", "%v", err)
		}
	}
}

// c03ExhaustivePair: two requests with few points, ALL interleavings.
func c03ExhaustivePair(t *T) {
	r := t.R
	var p *Program
	var reqs []c09Req
	var solo []string
	var pts []int
	for tries := 0; tries < 50; tries++ {
		p = c03Program(r)
		pool := c03Requests(p, r)
		reqs = []c09Req{pick(r, pool), pick(r, pool)}
		solo, pts = nil, nil
		ok := true
		for _, q := range reqs {
			var fresh *rux.Router
			if _, panicked := catch(func() { fresh = p.Build() }); panicked {
				ok = false
				break
			}
			rec, _, panicked := Serve(fresh, NewReq(q.Method, q.Path))
			if panicked {
				ok = false
				break
			}
			solo = append(solo, rec.Outcome())
			k := 0
			for _, ev := range rec.Events {
				if strings.HasPrefix(ev, "enter(") || strings.HasPrefix(ev, "leave(") {
					k++
				}
			}
			pts = append(pts, k)
		}
		if ok && pts[0] <= 4 && pts[1] <= 4 {
			break
		}
		p = nil
	}
	if p == nil {
		return
	}
	var word []int
	t.Describe(func() any {
		d := p.Describe().(map[string]any)
		d["requests"] = []string{"req0: " + reqs[0].String(), "req1: " + reqs[1].String()}
		d["schedule"] = word
		return d
	})
	a, b := pts[0]+1, pts[1]+1
	// enumerate all words with a zeros and b ones
	var rec func(pre []int, za, zb int) bool
	count := 0
	rec = func(pre []int, za, zb int) bool {
		if za == 0 && zb == 0 {
			word = append([]int{}, pre...)
			count++
			c03RunSchedule(t, p, reqs, solo, word)
			return !t.Failed()
		}
		if za > 0 && !rec(append(pre, 0), za-1, zb) {
			return false
		}
		if zb > 0 && !rec(append(pre, 1), za, zb-1) {
			return false
		}
		return true
	}
	rec(nil, a, b)
	t.Count("sched.exhaustive_pairs", 1)
	t.Count("sched.exhaustive_interleavings", int64(count))
}

// ---------------------------------------------------------------------------
// Monitor B: free-running stress (runs in the -race binary as monitor "C03B")
// ---------------------------------------------------------------------------

func runC03B(e *Env) {
	e.Rule = "free-running stress under the race detector: generated router shapes, 16..64 goroutines issuing a mix of requests without synchronisation; every response compared with the solo outcome Prologues: recovered panics and internal re-dispatches (HandleContext). Background goroutines keep a Copy() of the context (data and error list) beyond their request; custom not-allowed handlers record and edit the allowed-methods list they are given; every other shape has a route behind pkg/handlers.Timeout whose handler overruns the deadline. Every 16th request of a goroutine is preceded by the read-only route listings (Router.String, Routes, IterateRoutes), as an admin page would call them while requests are served."
	shapes := e.N(40, 500)
	G := int(e.N(16, 48))
	M := int(e.N(250, 1200))
	// one shape at a time, all cores inside a shape
	e.RunCases("stress", shapes, 1, func(t *T) {
		r := t.R
		p := c03Program(r)
		if chance(r, 1, 2) && p.CacheCap < 0 {
			p.CacheCap = pick(r, []int{1, 2, 3})
		}
		pool := c03Requests(p, r)
		t.Describe(func() any {
			d := p.Describe().(map[string]any)
			var rs []string
			for _, q := range pool {
				rs = append(rs, q.String())
			}
			d["request_pool"] = rs
			d["goroutines"] = G
			d["requests_per_goroutine"] = M
			return d
		})
		// a route behind pkg/handlers.Timeout whose handler overruns the deadline without looking at
		// ctx.Done() and touches its context afterwards (every other shape)
		build := p.Build
		if t.Idx%2 == 0 {
			build = func(extra ...func(*rux.Router)) *rux.Router {
				rt := p.Build(extra...)
				rt.GET("/slow/{id}", func(c *rux.Context) {
					id := c.Param("id")
					time.Sleep(3 * time.Millisecond)
					c.SetHeader("X-Slow-Id", id)
					recOf(c).Ev("slow handler of %s sees id %s after the deadline", id, c.Param("id"))
					c.WriteString("slow " + c.Param("id"))
				}, handlers.Timeout(time.Millisecond))
				return rt
			}
			pool = append(pool, c09Req{Kind: "slow_behind_timeout", Method: "GET", Path: "/slow/7"}, c09Req{Kind: "slow_behind_timeout", Method: "GET", Path: "/slow/8"})
		}
		solo := make([]string, len(pool))
		for i, q := range pool {
			var fresh *rux.Router
			if pv, panicked := catch(func() { fresh = build() }); panicked {
				t.Fail("registration-panic", "%v", pv)
				return
			}
			rec, pv, panicked := Serve(fresh, NewReq(q.Method, q.Path))
			if panicked {
				t.Fail("solo-panic", "request %s panicked alone: %v", q, pv)
				return
			}
			solo[i] = rec.Outcome()
		}
		var router *rux.Router
		if pv, panicked := catch(func() { router = build() }); panicked {
			t.Fail("registration-panic", "%v", pv)
			return
		}
		t.AutoSample()
		if !c03Prologue(t, p, router, pool) {
			return
		}
		var gauge, gaugeMax int64
		var bad int64
		var firstBad atomic.Value
		var wg sync.WaitGroup
		seeds := make([]uint64, G)
		for g := range seeds {
			seeds[g] = r.Uint64()
		}
		kindCount := make([]int64, len(pool))
		for g := 0; g < G; g++ {
			wg.Add(1)
			go func(g int) {
				defer wg.Done()
				lr := rand.New(rand.NewPCG(seeds[g], uint64(g)))
				for k := 0; k < M; k++ {
					i := lr.IntN(len(pool))
					q := pool[i]
					rec := NewRec()
					var bg sync.WaitGroup
					if k%16 == 5 {
						// an admin page lists the routes while requests are being served (read-only views)
						_ = router.String()
						_ = router.Routes()
						router.IterateRoutes(func(*rux.Route) {})
					}
					if k%4 == 0 {
						rec.Extra = map[string]any{"bg": &bg}
					}
					// how many requests are inside ServeHTTP at once (atomics: the monitor must not race itself)
					cur := atomic.AddInt64(&gauge, 1)
					for {
						old := atomic.LoadInt64(&gaugeMax)
						if cur <= old || atomic.CompareAndSwapInt64(&gaugeMax, old, cur) {
							break
						}
					}
					pv, panicked := catch(func() { router.ServeHTTP(rec, NewReq(q.Method, q.Path)) })
					atomic.AddInt64(&gauge, -1)
					bg.Wait() // the background copies are done before this request's recorder is read
					atomic.AddInt64(&kindCount[i], 1)
					if panicked {
						if atomic.AddInt64(&bad, 1) == 1 {
							firstBad.Store(fmt.Sprintf("request %s panicked under concurrency: %v", q, pv))
						}
						continue
					}
					if got := rec.Outcome(); got != solo[i] {
						if atomic.AddInt64(&bad, 1) == 1 {
							firstBad.Store(fmt.Sprintf("request %s under concurrency:\n observed: %s\n alone:    %s", q, got, solo[i]))
						}
					}
				}
			}(g)
		}
		wg.Wait()
		t.Count("stress.requests", int64(G*M))
		t.Count("stress.shapes", 1)
		if gaugeMax >= 2 {
			t.Count("stress.shapes_with_overlap", 1)
			t.NonTrivial(fmt.Sprint(p.Describe()))
		}
		t.Count("stress.max_inflight_sum", gaugeMax)
		for i, q := range pool {
			t.Count("stress.req_"+q.Kind, kindCount[i])
		}
		if p.CacheCap >= 0 {
			t.Count("stress.shapes_cache_on", 1)
		}
		if bad > 0 {
			t.Fail("concurrent-request-differs-from-solo", "%d of %d concurrent requests differ from their solo outcome; first: %v", bad, G*M, firstBad.Load())
		}
		if c := router.VerifCachedRoutes(); c != nil {
			if err := c.VerifCheck(); err != nil {
				t.Fail("cache-structure-after-stress", "%v", err)
			}
		}
	})

	// direct concurrent use of the cache type (Get/Set/Has/Delete/Len)
	e.RunCases("cache-stress", e.N(40, 400), 1, func(t *T) {
		r := t.R
		capacity := 1 + r.IntN(4)
		c := rux.NewCachedRoutes(capacity)
		routes := make([]*rux.Route, 8)
		for i := range routes {
			routes[i] = rux.NewRoute("/v", noopHandler)
		}
		t.Describe(func() any { return map[string]any{"capacity": capacity, "goroutines": 16, "ops_per_goroutine": 2000} })
		var wg sync.WaitGroup
		seeds := make([]uint64, 16)
		for g := range seeds {
			seeds[g] = r.Uint64()
		}
		for g := 0; g < 16; g++ {
			wg.Add(1)
			go func(g int) {
				defer wg.Done()
				lr := rand.New(rand.NewPCG(seeds[g], 7))
				for k := 0; k < 2000; k++ {
					key := fmt.Sprintf("k%d", lr.IntN(5))
					switch lr.IntN(6) {
					case 0, 1:
						c.Set(key, routes[lr.IntN(len(routes))])
					case 2, 3:
						c.Get(key)
					case 4:
						c.Has(key)
					default:
						if lr.IntN(4) == 0 {
							c.Delete(key)
						} else {
							c.Len()
						}
					}
				}
			}(g)
		}
		wg.Wait()
		t.Count("cachestress.ops", 16*2000)
		if err := c.VerifCheck(); err != nil {
			t.Fail("cache-structure-after-stress", "capacity %d: %v", capacity, err)
		}
		t.NonTrivial(fmt.Sprint(capacity, t.Idx))
	})
	e.Require("stress.shapes_with_overlap", 10)
}

// ---------------------------------------------------------------------------
// orchestration
// ---------------------------------------------------------------------------

func runC03(e *Env) {
	e.Rule = "A: handler-boundary scheduler - generated router shapes (global middleware added by 1..4 Use calls, group/route middleware, custom/default NotFound/NotAllowed, cache off/1/2/3/1000, with/without an OnPanic hook and a prologue of recovered panics) x 2..4 requests (same dynamic route with different ids, different routes, 404, 405, HEAD->GET, repeats) x chosen interleavings at handler boundaries (random, park-early/resume-late, round robin; ALL interleavings for request pairs with <= 4 points each); each request's trace/params/response must equal its solo run on a fresh identical router and in-flight requests must hold distinct contexts. B: the same shapes under free-running stress in a -race build (16..48 goroutines), race reports parsed and attributed, responses compared with solo outcomes, cache invariant at quiescence, process-fatal errors reported with the journal. C: linearizability of concurrent cache histories (porcupine). Non-trivial: a schedule with >= 2 requests in flight at once; distinct by (shape, requests, schedule). Prologues: recovered panics and internal re-dispatches; custom not-allowed handlers record and edit the allowed-methods list they are given."
	e.Assumptions = []string{
		"interleavings inside library code at instruction granularity are reached only as far as the Go scheduler and 16 cores produce them (monitor B); monitor A controls interleavings at handler boundaries exactly",
		"the race detector reports races on executed access pairs only",
		"a solo run on a freshly built identical router is the specification of 'as if it were the only request'",
	}
	if e.replay != nil && e.replay.Part == "stress" {
		e.Inconclusive("stress cases are replayed by running: ruxmon-race child C03B %s (VERIF_SEED=%d)", e.Tier, e.Seed)
		return
	}
	e.RunCases("sched-random", e.N(4000, 150000), 0, c03SchedCase)
	e.RunCases("sched-exhaustive-pairs", e.N(300, 6000), 0, c03ExhaustivePair)
	e.RunCases("cache-linearizability", e.N(600, 20000), 2, c14ConcurrentCase)
	if e.replay != nil {
		return
	}
	e.Require("sched.schedules_with_overlap", 1000)
	e.Require("sched.req_not_found", 200)
	e.Require("sched.req_not_allowed", 100)
	e.Require("sched.req_head_get", 100)
	e.Require("sched.cache_on", 300)
	e.Require("sched.exhaustive_interleavings", 2000)

	// ---- monitor B in the race-instrumented binary ----
	raceExe := os.Getenv("RUXMON_RACE_EXE")
	if raceExe == "" {
		e.Inconclusive("RUXMON_RACE_EXE not set: the -race build is missing, monitor B did not run")
		return
	}
	sub := filepath.Join(e.WorkDir, "c03b")
	_ = os.RemoveAll(sub)
	_ = os.MkdirAll(sub, 0o755)
	logPrefix := filepath.Join(sub, "race")
	cmd := exec.Command(raceExe, "child", "C03B", e.Tier)
	cmd.Env = append(os.Environ(),
		"GORACE=halt_on_error=0 exitcode=0 log_path="+logPrefix, // exitcode=0: keep the child's own verdict as exit status; reports are read from the log
		"VERIF_OUT="+sub,
		fmt.Sprintf("VERIF_SEED=%d", e.Seed),
		"GOTRACEBACK=all",
	)
	outPath := filepath.Join(sub, "child.log")
	outF, _ := os.Create(outPath)
	cmd.Stdout, cmd.Stderr = outF, outF
	start := time.Now()
	err := cmd.Run()
	outF.Close()
	e.Note("monitorB_wall_s", time.Since(start).Seconds())
	out, _ := os.ReadFile(outPath)
	code := 0
	if err != nil {
		if ee, ok := err.(*exec.ExitError); ok {
			code = ee.ExitCode()
		} else {
			code = -1
		}
	}
	// merge the stress child's evidence
	if b, err := os.ReadFile(filepath.Join(sub, "evidence", "C03B.json")); err == nil {
		var ev struct {
			Coverage struct {
				Evaluations int64            `json:"evaluations"`
				Distinct    int64            `json:"distinct_nontrivial"`
				Observed    map[string]int64 `json:"observed"`
				Samples     []any            `json:"samples"`
			} `json:"coverage"`
		}
		if json.Unmarshal(b, &ev) == nil {
			for k, v := range ev.Coverage.Observed {
				e.AddCounter(k, v)
			}
			e.Note("monitorB_evaluations", ev.Coverage.Evaluations)
			e.Note("monitorB_distinct_nontrivial", ev.Coverage.Distinct)
			if len(ev.Coverage.Samples) > 0 {
				e.Note("monitorB_sample", ev.Coverage.Samples[0])
			}
		}
	}
	switch code {
	case ExitHeld:
	case ExitViolation:
		// relay: the stress child found behavioural violations; its replay files are under work/c03b/replays
		for _, ln := range strings.Split(string(out), "\n") {
			if strings.HasPrefix(ln, "VIOLATION ") {
				path := ln[strings.Index(ln, "replay=")+len("replay="):]
				msg := "stress child reported: " + ln
				if b, err := os.ReadFile(strings.TrimSpace(path)); err == nil {
					var rf ReplayFile
					if json.Unmarshal(b, &rf) == nil {
						msg = rf.Message
						e.GlobalFail("stress:"+rf.Sig, "stress", rf.Index, rf.Case, "%s", msg)
						continue
					}
				}
				e.GlobalFail("stress-violation", "stress", -1, nil, "%s", msg)
			}
		}
	case ExitInconclusive:
		e.Inconclusive("the stress child (monitor B) was inconclusive; see %s", outPath)
	default:
		// process-fatal: concurrent map access, corrupted list, runtime crash
		first := "process died"
		for _, ln := range strings.Split(string(out), "\n") {
			if strings.HasPrefix(ln, "fatal error:") || strings.HasPrefix(ln, "panic:") {
				first = ln
				break
			}
		}
		var inflight []string
		js, _ := filepath.Glob(filepath.Join(sub, "work", "C03B.journal.*"))
		for _, p := range js {
			if b, _ := os.ReadFile(p); len(b) > 0 {
				inflight = append(inflight, strings.TrimSpace(string(b)))
			}
		}
		tail := string(out)
		if len(tail) > 16<<10 {
			tail = tail[:16<<10]
		}
		e.GlobalFail("stress-process-fatal", "stress", -1, map[string]any{"in_flight": inflight, "crash_log": tail},
			"the stress process died with exit code %d: %s (in flight: %v)", code, first, inflight)
	}

	// ---- race reports ----
	files, _ := filepath.Glob(logPrefix + ".*")
	type report struct {
		text  string
		owner [2]string
		key   string
	}
	var reports []report
	for _, f := range files {
		fh, err := os.Open(f)
		if err != nil {
			continue
		}
		sc := bufio.NewScanner(fh)
		sc.Buffer(make([]byte, 1<<20), 1<<20)
		var cur []string
		in := false
		flush := func() {
			if len(cur) > 0 {
				reports = append(reports, report{text: strings.Join(cur, "\n")})
			}
			cur = nil
		}
		for sc.Scan() {
			ln := sc.Text()
			if strings.HasPrefix(ln, "WARNING: DATA RACE") {
				flush()
				in = true
			}
			if in {
				if strings.HasPrefix(ln, "==================") && len(cur) > 0 {
					flush()
					in = false
					continue
				}
				cur = append(cur, ln)
			}
		}
		flush()
		fh.Close()
	}
	e.AddCounter("race.reports_total", int64(len(reports)))
	ruxRaces := map[string]report{}
	harnessRaces := 0
	for _, rp := range reports {
		// split into the stacks of the two conflicting accesses
		var stacks [][]string
		var cur []string
		for _, ln := range strings.Split(rp.text, "\n") {
			t := strings.TrimSpace(ln)
			switch {
			case strings.HasPrefix(t, "Write at") || strings.HasPrefix(t, "Read at") || strings.HasPrefix(t, "Previous write at") || strings.HasPrefix(t, "Previous read at") ||
				strings.HasPrefix(t, "Atomic") || strings.HasPrefix(t, "Previous atomic"):
				if cur != nil {
					stacks = append(stacks, cur)
				}
				cur = []string{}
			case strings.HasPrefix(t, "Goroutine "):
				if cur != nil {
					stacks = append(stacks, cur)
				}
				cur = nil
			case cur != nil && t != "" && !strings.HasPrefix(t, "/") && strings.Contains(t, "("):
				cur = append(cur, t)
			}
		}
		if cur != nil {
			stacks = append(stacks, cur)
		}
		owner := func(st []string) string {
			for _, fn := range st {
				if strings.HasPrefix(fn, "github.com/gookit/rux.") || strings.HasPrefix(fn, "github.com/gookit/rux/") {
					return "rux:" + stripArgs(fn)
				}
				if strings.HasPrefix(fn, "verifharness/") {
					return "harness:" + stripArgs(fn)
				}
			}
			return "other"
		}
		o := []string{"other", "other"}
		for i := 0; i < len(stacks) && i < 2; i++ {
			o[i] = owner(stacks[i])
		}
		sort.Strings(o)
		key := o[0] + " <-> " + o[1]
		if strings.HasPrefix(o[0], "rux:") || strings.HasPrefix(o[1], "rux:") {
			if _, dup := ruxRaces[key]; !dup {
				rp.key = key
				ruxRaces[key] = rp
			}
		} else {
			harnessRaces++
		}
	}
	e.AddCounter("race.distinct_rux_races", int64(len(ruxRaces)))
	keys := make([]string, 0, len(ruxRaces))
	for k := range ruxRaces {
		keys = append(keys, k)
	}
	sort.Strings(keys)
	for i, k := range keys {
		txt := ruxRaces[k].text
		if len(txt) > 6000 {
			txt = txt[:6000]
		}
		e.GlobalFail("data-race:"+k, "race-report", int64(i), map[string]any{"report": txt},
			"the race detector reports a data race inside the router: %s", k)
	}
	if harnessRaces > 0 {
		e.Inconclusive("%d race reports involve only harness frames: the monitor itself races (broken check)", harnessRaces)
	}
	e.Require("stress.requests", 50000)
	e.Require("stress.shapes_with_overlap", 10)
	e.Require("stress.shapes_cache_on", 5)
	e.Require("cachestress.ops", 100000)
}

func stripArgs(fn string) string {
	if i := strings.LastIndexByte(fn, '('); i > 0 && strings.HasSuffix(fn, ")") {
		// keep method receivers like (*cachedRoutes), drop the trailing "()"
		if fn[i:] == "()" {
			return fn[:i]
		}
	}
	return fn
}
