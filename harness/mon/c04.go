package mon

import (
	"fmt"
	"strings"

	"github.com/gookit/rux"
	"github.com/gookit/rux/pkg/pprof"
)

func init() {
	Monitors["C04"] = runC04
	Monitors["C12"] = runC12
}

func eventsEqual(a, b []string) bool {
	if len(a) != len(b) {
		return false
	}
	for i := range a {
		if a[i] != b[i] {
			return false
		}
	}
	return true
}

// classifyTrace gives a machine signature for a trace mismatch.
func classifyTrace(want, got []string) string {
	count := func(ev []string) map[string]int {
		m := map[string]int{}
		for _, e := range ev {
			m[e]++
		}
		return m
	}
	w, g := count(want), count(got)
	for e, n := range g {
		if strings.HasPrefix(e, "enter(") && n > 1 && w[e] <= 1 {
			return "handler-ran-twice"
		}
	}
	for e := range g {
		if w[e] == 0 {
			return "foreign-handler-ran"
		}
	}
	for e := range w {
		if g[e] == 0 {
			return "handler-missing"
		}
	}
	return "wrong-order"
}

func withoutFake(ev []string) []string {
	var out []string
	for _, e := range ev {
		if !strings.Contains(e, "(__default__)") {
			out = append(out, e)
		}
	}
	return out
}

var fakeTerminal = &MW{ID: "__default__", Nexts: 0}

func chainNonTrivial(chain []*MW) bool {
	for _, m := range chain {
		if m.Nexts != 1 {
			return true
		}
	}
	return false
}

func runC04(e *Env) {
	e.Rule = "registration programs (AST): Use / Group (nested to depth 4, via Group or Controller) / routes with variadic middleware and later Route.Use calls (immediately or at program end) / top-level Use before, between and after routes / NotFound / NotAllowed, HandleMethodNotAllowed on/off, cache off/on; every handler is a fresh closure calling Next 0, 1 or 2 times (main handlers too). One request per route + a not-found + a wrong-method request + an overlapping pair (a second request served by the same router while the first is parked inside one of its handlers); the recorded enter/leave trace must equal the onion interpreter's trace of the chain predicted by the reference scope model. Non-trivial: depth >= 2, Use after a route, sibling groups, or a 0/2-Next handler in the chain; distinct by (program, request). A third of the routers have served a request whose handler panicked (no hook, recovered by the caller) before. Every middleware closure comes from one function literal. Part long-chains: chains of 40..327 entries (global middleware on top of a full route chain), compared with the onion interpreter. A group may contain one route whose own path is just a variable (GET(\"/{id:[0-9]{3}}\") inside Group(\"/g1\")): its literal head is the group prefix, which is also the beginning of the heads of everything nested below. A third of the middleware that never call Next() answer the request themselves (Redirect, Back, Text) before they return."
	e.Assumptions = []string{
		"the 40-line scope model + 15-line onion interpreter in harness/mon/prog.go are the trusted statement of the documented order",
		"the generated programs keep chains short; the part long-chains drives chains of 40..327 entries (global + group + route middleware + main handler; a route's own chain stays within the registration limit of 63, the global middleware is not counted by it) in which nobody aborts",
	}
	e.RunCases("programs", e.N(15000, 3000000), 0, c04Case)
	e.RunCases("long-chains", e.N(400, 40000), 0, c04LongCase)
	e.RunCases("redispatch", e.N(3000, 300000), 0, c04RedispatchCase)
	e.Require("redispatch.into_shorter_chain", 300)
	e.Require("redispatch.into_longer_chain", 300)
	e.Require("long.chains_64_to_127", 100)
	e.Require("requests.route", 5000)
	e.Require("requests.not_found", 1000)
	e.Require("requests.not_allowed", 300)
	e.Require("programs.use_after_route", 100)
	e.Require("programs.depth_ge_2", 100)
	e.Require("chains.with_no_next_handler", 100)
	e.Require("requests.overlapping_pairs", 1000)
}

func c04Case(t *T) {
	r := t.R
	g := &progGen{maxDepth: 4, dynamic: true, ctrl: true, styles: true, bare: true}
	p := GenProgram(r, g)
	armPanics(p) // enables the X-Nest header: a second request served while the first is inside a handler
	// a third of the middleware that never call Next() answer the request themselves (a redirect, a text) and
	// return - "a handler that returns without Next() is followed by the rest of the chain", whatever it sent
	seenMW, answering := map[*MW]bool{}, map[*MW]bool{}
	answer := func(m *MW) {
		if m == nil || seenMW[m] || m.Main || m.Nexts != 0 {
			return
		}
		seenMW[m] = true
		if !chance(r, 1, 3) {
			return
		}
		answering[m] = true
		old, kind := m.Pre, r.IntN(3)
		m.Pre = func(c *rux.Context, rec *Rec) {
			if old != nil {
				old(c, rec)
			}
			switch kind {
			case 0:
				c.Redirect("/elsewhere")
			case 1:
				c.Back()
			default:
				c.Text(200, "answered by "+m.ID)
			}
		}
		t.Count("programs.middleware_answers_and_returns_without_next", 1)
	}
	for _, m := range p.Globals {
		answer(m)
	}
	for _, rs := range p.Routes {
		for _, m := range rs.Chain {
			answer(m)
		}
	}
	var failing []string
	t.Describe(func() any {
		d := p.Describe().(map[string]any)
		d["failing_requests"] = failing
		return d
	})
	var router *rux.Router
	if pv, panicked := catch(func() { router = p.Build() }); panicked {
		t.Fail("registration-panic", "a valid registration program panicked: %v", pv)
		return
	}
	t.AutoSample()
	if p.UseAfter {
		t.Count("programs.use_after_route", 1)
	}
	if p.MaxDepth >= 2 {
		t.Count("programs.depth_ge_2", 1)
	}
	progKey := fmt.Sprint(p.Describe())
	progNT := p.MaxDepth >= 2 || p.UseAfter || p.Siblings
	// a third of the routers have served a request whose handler panicked before (no OnPanic hook:
	// the panic escapes ServeHTTP and is recovered by the caller, as net/http does per connection)
	if len(p.Routes) > 0 && chance(r, 1, 3) {
		rs := pick(r, p.Routes)
		chain := append(append(append([]*MW{}, p.Globals...), rs.Chain...), rs.Main)
		site := pick(r, chain)
		req := NewReq(rs.Method, rs.RequestPath(r))
		req.Header.Set("X-Panic", site.ID+":"+pick(r, []string{"pre", "post"}))
		req.Header.Set("X-Panic-Val", "string")
		_, _, _ = Serve(router, req)
		t.Count("programs.after_escaped_panic", 1)
	}

	check := func(kind, method, path string, chain []*MW, wantStatus int) {
		want := withoutFake(OnionEvents(chain))
		rec, pv, panicked := Serve(router, NewReq(method, path))
		if panicked {
			failing = append(failing, method+" "+path)
			t.Fail("servehttp-panic", "%s %s %q panicked: %v", kind, method, path, pv)
			return
		}
		t.Tracef("%s request %s %q: status %d, trace %s", kind, method, path, rec.Status(), strings.Join(rec.Events, " "))
		t.Count("requests."+kind, 1)
		if chainNonTrivial(chain) {
			t.Count("chains.with_no_next_handler", 1)
		}
		if progNT || chainNonTrivial(chain) {
			t.NonTrivial(progKey + method + path)
		}
		if !eventsEqual(want, rec.Events) {
			failing = append(failing, method+" "+path)
			t.Fail(kind+"-"+classifyTrace(want, rec.Events), "%s request %s %q: expected chain %s\n expected trace: %s\n observed trace: %s", kind, method, path, mwList(chain), strings.Join(want, " "), strings.Join(rec.Events, " "))
			return
		}
		answered := false // (a middleware of the chain sent its own answer: the status is that answer's, not part of this property)
		for _, m := range chain {
			if answering[m] {
				answered = true
			}
		}
		if wantStatus != 0 && !answered && rec.Status() != wantStatus {
			failing = append(failing, method+" "+path)
			t.Fail(kind+"-status", "%s request %s %q: expected status %d, observed %d", kind, method, path, wantStatus, rec.Status())
		}
		if rec.NumWH() != 1 {
			failing = append(failing, method+" "+path)
			t.Fail(kind+"-header-commits", "%s request %s %q: %d WriteHeader calls reached the writer", kind, method, path, rec.NumWH())
		}
	}

	{
		// a fallback request first: then route requests, then fallback requests again - all on the same pooled context
		nf0 := p.NotFoundH
		st0 := 200
		if nf0 == nil {
			nf0, st0 = []*MW{fakeTerminal}, 404
		}
		check("not_found", "GET", "/no/such/route/yet", append(append([]*MW{}, p.Globals...), nf0...), st0)
	}
	for _, rs := range p.Routes {
		chain := append(append(append([]*MW{}, p.Globals...), rs.Chain...), rs.Main)
		path := rs.RequestPath(r)
		check("route", rs.Method, path, chain, 200)
		if p.CacheCap >= 1 && strings.Contains(rs.FullPath, "{") {
			// the repeat is answered from the route cache: same chain
			t.Count("requests.cache_hit_repeat", 1)
			check("route", rs.Method, path, chain, 200)
		}
	}
	// two requests in flight at once: the inner one is served by the same router while the
	// outer one is parked inside one of its handlers; both must still run exactly their own chain
	if len(p.Routes) > 0 {
		outer, inner := pick(r, p.Routes), pick(r, p.Routes)
		ochain := append(append(append([]*MW{}, p.Globals...), outer.Chain...), outer.Main)
		ichain := append(append(append([]*MW{}, p.Globals...), inner.Chain...), inner.Main)
		site := pick(r, ochain)
		req := NewReq(outer.Method, outer.RequestPath(r))
		ipath := inner.RequestPath(r)
		req.Header.Set("X-Nest", site.ID+"|"+inner.Method+"|"+ipath)
		rec, pv, panicked := Serve(router, req)
		t.Count("requests.overlapping_pairs", 1)
		if panicked {
			failing = append(failing, "nested "+outer.Name+"/"+inner.Name)
			t.Fail("servehttp-panic", "overlapping pair %s (with %s served inside %s) panicked: %v", outer.Name, inner.Name, site.ID, pv)
			return
		}
		var wantOuter []string
		for _, ev := range OnionEvents(ochain) {
			wantOuter = append(wantOuter, ev)
			if ev == "enter("+site.ID+")" {
				wantOuter = append(wantOuter, "nested-done")
			}
		}
		in, _ := rec.Extra["nested_rec"].(*Rec)
		if !eventsEqual(wantOuter, rec.Events) {
			failing = append(failing, "nested "+outer.Name+"/"+inner.Name)
			t.Fail("overlapping-outer-"+classifyTrace(wantOuter, rec.Events), "request %s %q with request %s %q served while it was inside %s:\n expected trace of the outer request: %s\n observed: %s", outer.Method, req.URL.Path, inner.Method, ipath, site.ID, strings.Join(wantOuter, " "), strings.Join(rec.Events, " "))
			return
		}
		if wantInner := OnionEvents(ichain); in == nil || !eventsEqual(wantInner, in.Events) {
			failing = append(failing, "nested "+outer.Name+"/"+inner.Name)
			t.Fail("overlapping-inner-trace", "request %s %q served inside %s of request %s: expected trace %s, observed %v", inner.Method, ipath, site.ID, outer.Name, strings.Join(wantInner, " "), outcomeEvents(in))
			return
		}
	}
	// not found
	nf := p.NotFoundH
	nfStatus := 0
	if nf == nil {
		nf = []*MW{fakeTerminal}
		nfStatus = 404
	} else {
		nfStatus = 200 // instrumented fallback handlers write nothing: the lazy commit is 200
	}
	check("not_found", pick(r, []string{"GET", "POST", "DELETE"}), "/no/such/route", append(append([]*MW{}, p.Globals...), nf...), nfStatus)
	// wrong method on an existing path (routes registered through Any allow every method)
	var single []*RouteStmt
	for _, x := range p.Routes {
		if x.Style != "any" {
			single = append(single, x)
		}
	}
	if len(single) == 0 {
		return
	}
	rs := pick(r, single)
	other := "TRACE"
	if p.NotAllowed {
		na := p.NotAllowH
		st := 200
		if na == nil {
			na = []*MW{fakeTerminal}
			st = 405
		}
		check("not_allowed", other, rs.RequestPath(r), append(append([]*MW{}, p.Globals...), na...), st)
	} else {
		check("not_found", other, rs.RequestPath(r), append(append([]*MW{}, p.Globals...), nf...), nfStatus)
	}
}

// c04LongCase: long chains in which nobody aborts. The route's own chain (group +
// route middleware + main) respects the registration limit; global middleware,
// which that limit does not count, makes the executed chain longer.
func c04LongCase(t *T) {
	r := t.R
	nRoute := r.IntN(31)          // route middleware
	nGroup := r.IntN(62 - nRoute) // group middleware; group+route+main <= 62
	if chance(r, 1, 4) {
		nGroup = 61 - nRoute // the registration limit exactly
	}
	total := 40 + r.IntN(88) // 40..127
	over := t.Idx%20 == 0
	if over {
		total = 128 + r.IntN(200) // beyond what an 8-bit cursor can index
	}
	nGlobal := total - 1 - nGroup - nRoute
	if nGlobal < 0 {
		nGlobal = 0
	}
	total = nGlobal + nGroup + nRoute + 1
	mk := func(prefix string, n int) []*MW {
		out := make([]*MW, n)
		for i := range out {
			nx := 1
			if chance(r, 1, 40) {
				nx = pick(r, []int{0, 2})
			}
			out[i] = &MW{ID: fmt.Sprintf("%s%d", prefix, i), Nexts: nx}
		}
		return out
	}
	globals, group, route := mk("G", nGlobal), mk("Q", nGroup), mk("M", nRoute)
	main := &MW{ID: "main", Nexts: pick(r, []int{0, 0, 1}), Main: true}
	useCalls := pick(r, []string{"one", "each", "split"})
	t.Describe(func() any {
		return map[string]any{"global": nGlobal, "group": nGroup, "route": nRoute, "total_handlers": total, "use_calls": useCalls,
			"handlers_not_calling_next_once": func() (s []string) {
				for _, m := range append(append(append(append([]*MW{}, globals...), group...), route...), main) {
					if m.Nexts != 1 {
						s = append(s, m.String())
					}
				}
				return
			}()}
	})
	hs := func(ms []*MW) []rux.HandlerFunc {
		out := make([]rux.HandlerFunc, len(ms))
		for i, m := range ms {
			out[i] = m.Handler()
		}
		return out
	}
	var router *rux.Router
	if pv, panicked := catch(func() {
		router = rux.New()
		gh := hs(globals)
		switch {
		case useCalls == "one" || len(gh) < 2:
			router.Use(gh...)
		case useCalls == "each":
			for _, h := range gh {
				router.Use(h)
			}
		default:
			k := len(gh) / 2
			router.Use(gh[:k]...)
			router.Use(gh[k:]...)
		}
		router.Group("/g", func() {
			router.GET("/x/{id}", main.Handler(), hs(route)...)
		}, hs(group)...)
	}); panicked {
		t.Fail("registration-panic", "registering %d global + %d group + %d route middleware panicked: %v", nGlobal, nGroup, nRoute, pv)
		return
	}
	t.AutoSample()
	chain := append(append(append(append([]*MW{}, globals...), group...), route...), main)
	want := OnionEvents(chain)
	rec, pv, panicked := Serve(router, NewReq("GET", "/g/x/7"))
	if panicked {
		t.Fail("servehttp-panic", "chain of %d handlers: ServeHTTP panicked: %v", total, pv)
		return
	}
	t.Tracef("chain of %d handlers (%d global, %d group, %d route, main): status %d, %d events, first %v ... last %v", total, nGlobal, nGroup, nRoute, rec.Status(), len(rec.Events), head(rec.Events, 3), tail(rec.Events, 3))
	if total >= 64 && total <= 127 {
		t.Count("long.chains_64_to_127", 1)
	}
	t.NonTrivial(fmt.Sprint(nGlobal, nGroup, nRoute, useCalls))
	if eventsEqual(want, rec.Events) {
		if over {
			t.Count("long.chains_ge_128_correct", 1)
		}
		return
	}
	t.Fail("long-chain-"+classifyTrace(want, rec.Events), "chain of %d handlers (%d global, %d group, %d route middleware + main), nobody aborts:\n expected %d events: %s ...\n observed %d events: %s ...", total, nGlobal, nGroup, nRoute, len(want), strings.Join(head(want, 12), " "), len(rec.Events), strings.Join(head(rec.Events, 12), " "))
}

// c04RedispatchCase: an internal redirect. A handler of the chain of /outer changes the request path
// and has the router dispatch the request again (Router.HandleContext): the chain of /inner (global
// middleware included) runs as a whole inside that handler; afterwards the handlers of the outer chain
// that were suspended in Next() resume in reverse order and no further handler of the outer chain starts.
func c04RedispatchCase(t *T) {
	r := t.R
	nGlobal, nOuter, nInner := r.IntN(3), r.IntN(5), r.IntN(5)
	mk := func(prefix string, n int, allNext bool) []*MW {
		out := make([]*MW, n)
		for i := range out {
			nx := 1
			if !allNext && chance(r, 1, 5) {
				nx = pick(r, []int{0, 2})
			}
			out[i] = &MW{ID: fmt.Sprintf("%s%d", prefix, i), Nexts: nx}
		}
		return out
	}
	globals := mk("G", nGlobal, true)
	outer := append(mk("o", nOuter, true), &MW{ID: "omain", Nexts: 1, Main: true})
	inner := append(mk("i", nInner, false), &MW{ID: "imain", Nexts: pick(r, []int{0, 1}), Main: true})
	j := r.IntN(len(outer)) // the re-dispatching handler of the outer chain
	nextAfter := chance(r, 1, 2)
	t.Describe(func() any {
		return map[string]any{"global": mwList(globals), "outer_chain(/outer)": mwList(outer), "inner_chain(/inner)": mwList(inner),
			"redispatching_handler": outer[j].ID, "calls_Next_after_the_redispatch": nextAfter}
	})
	outer[j].Pre = func(c *rux.Context, rec *Rec) {
		if c.Req.URL.Path == "/outer" {
			c.Req.URL.Path = "/inner"
			rec.Ev("redispatch(%s)", outer[j].ID)
			c.Router().HandleContext(c)
			rec.Ev("redispatch-returned(%s)", outer[j].ID)
		}
	}
	if !nextAfter {
		outer[j].Nexts = 0
	}
	router := rux.New()
	router.Use(handlersOf(globals)...)
	router.GET("/outer", outer[len(outer)-1].Handler(), handlersOf(outer[:len(outer)-1])...)
	router.GET("/inner", inner[len(inner)-1].Handler(), handlersOf(inner[:len(inner)-1])...)
	t.AutoSample()

	// expected trace
	var want []string
	pre := append(append([]*MW{}, globals...), outer[:j]...)
	for _, m := range pre {
		want = append(want, "enter("+m.ID+")")
	}
	want = append(want, "enter("+outer[j].ID+")", "redispatch("+outer[j].ID+")")
	// the inner dispatch runs the global middleware again (as instances of the same handlers)
	want = append(want, OnionEvents(append(append([]*MW{}, globals...), inner...))...)
	want = append(want, "redispatch-returned("+outer[j].ID+")", "leave("+outer[j].ID+")")
	for i := len(pre) - 1; i >= 0; i-- {
		want = append(want, "leave("+pre[i].ID+")")
	}
	outerLen, innerLen := nGlobal+len(outer), nGlobal+len(inner)
	switch {
	case innerLen < outerLen:
		t.Count("redispatch.into_shorter_chain", 1)
	case innerLen > outerLen:
		t.Count("redispatch.into_longer_chain", 1)
	default:
		t.Count("redispatch.into_chain_of_equal_length", 1)
	}
	t.NonTrivial(fmt.Sprint(mwList(globals), mwList(outer), mwList(inner), j, nextAfter))
	rec, pv, panicked := Serve(router, NewReq("GET", "/outer"))
	t.Tracef("GET /outer re-dispatched by %s to /inner: panicked=%v (%v) trace %s", outer[j].ID, panicked, pv, strings.Join(rec.Events, " "))
	if panicked {
		t.Fail("redispatch-panics", "GET /outer, re-dispatched by %s (position %d of a chain of %d) to /inner (chain of %d): ServeHTTP panicked: %v; trace so far %s", outer[j].ID, nGlobal+j, outerLen, innerLen, pv, strings.Join(rec.Events, " "))
		return
	}
	if !eventsEqual(want, rec.Events) {
		t.Fail("redispatch-"+classifyTrace(want, rec.Events), "GET /outer, re-dispatched by %s (position %d of a chain of %d) to /inner (chain of %d):\n expected trace: %s\n observed trace: %s", outer[j].ID, nGlobal+j, outerLen, innerLen, strings.Join(want, " "), strings.Join(rec.Events, " "))
	}
}

func head(s []string, n int) []string {
	if len(s) > n {
		return s[:n]
	}
	return s
}

func tail(s []string, n int) []string {
	if len(s) > n {
		return s[len(s)-n:]
	}
	return s
}

// ---------------------------------------------------------------------------
// C12
// ---------------------------------------------------------------------------

func runC12(e *Env) {
	e.Rule = "registration programs with emphasis on scope: Group/Controller nested to depth 5 with clean prefixes (also spelled without leading / with trailing slash; '' and '/' at top level), sibling groups with different middleware, Use between two routes of one group, routes before/inside/between/after groups, and a uniquely named PROBE route registered right after every Group return. Observed: Route.Path() and len(Route.Handlers()) right after registration and at the end, the enter/leave trace of one request per route at the model's full path, and 404 for the route's path without its prefixes. Oracle: reference scope model (prefix concatenation, middleware in effect at registration time, state restored after Group returns). Non-trivial: >= 2 sibling groups, a route after a Group return, or a Use inside a group; distinct by program. A fifth of the programs run on a StrictLastSlash router with route paths ending in a slash. A group may contain one route whose own path is just a variable (GET(\"/{id:[0-9]{3}}\") inside Group(\"/g1\")): its literal head is the group prefix, which is also the beginning of the heads of everything nested below. On routers with a route cache (capacity 1, 2 or 1000) every dynamic request is repeated at once and once more after all other routes were requested. Part stock-group-helper: pkg/pprof.UsePProf (a stock user of Group) called for 2..4 routers of one process, at top level and inside groups with and without middleware."
	e.Assumptions = []string{
		"group prefixes are clean non-root prefixes as in the property's quantifier ('' and '/' only for top-level groups)",
		"the scope model in harness/mon/prog.go is the trusted statement of the documented group semantics",
	}
	e.RunCases("programs", e.N(15000, 3000000), 0, c12Case)
	e.RunCases("stock-group-helper", e.N(60, 600), 0, c12PProf)
	e.Require("stock_group_helper.routers_checked", 100)
	e.Require("routes.checked", 10000)
	e.Require("routes.probe_after_group", 2000)
	e.Require("programs.siblings", 500)
	e.Require("programs.use_in_group", 500)
	e.Require("routes.depth_ge_3", 200)
	e.Require("routes.unprefixed_path_404", 2000)
	e.Require("routes.cache_hit_repeat", 300)
}

func c12Case(t *T) {
	r := t.R
	g := &progGen{maxDepth: 5, dynamic: true, ctrl: true, probes: true, styles: true, bare: true, strict: chance(t.R, 1, 5)}
	p := GenProgram(r, g)
	var failing []string
	t.Describe(func() any {
		d := p.Describe().(map[string]any)
		d["failing"] = failing
		return d
	})
	var router *rux.Router
	if pv, panicked := catch(func() { router = p.Build() }); panicked {
		t.Fail("registration-panic", "a valid registration program panicked: %v", pv)
		return
	}
	t.AutoSample()
	if p.Siblings {
		t.Count("programs.siblings", 1)
	}
	if p.UseInGroup {
		t.Count("programs.use_in_group", 1)
	}
	if p.Siblings || p.RouteAfterGroup || p.UseInGroup {
		t.NonTrivial(fmt.Sprint(p.Describe()))
	}
	all := map[string]bool{}
	for _, rs := range p.Routes {
		all[rs.Method+rs.FullPath] = true
	}
	// with a route cache: every dynamic request is sent once more after all the others (its entry may have
	// been evicted and its list node reused in between) and must run the chain of its own groups again
	type again struct {
		rs   *RouteStmt
		path string
		want []string
	}
	var secondPass []again
	defer func() {
		if p.CacheCap < 1 || t.Failed() {
			return
		}
		for _, a := range secondPass {
			t.Count("routes.second_pass_after_other_dynamic_requests", 1)
			rec, pv, panicked := Serve(router, NewReq(a.rs.Method, a.path))
			if panicked {
				t.Fail("servehttp-panic", "%s %q (second pass) panicked: %v", a.rs.Method, a.path, pv)
				return
			}
			if !eventsEqual(a.want, rec.Events) {
				failing = append(failing, a.rs.Name)
				t.Fail("route-chain-"+classifyTrace(a.want, rec.Events), "route %s: request %s %q repeated after the other routes were requested (route cache capacity %d)\n expected trace: %s\n observed trace: %s", a.rs.Name, a.rs.Method, a.path, p.CacheCap, strings.Join(a.want, " "), strings.Join(rec.Events, " "))
				return
			}
		}
	}()
	for _, rs := range p.Routes {
		t.Count("routes.checked", 1)
		if rs.Probe {
			t.Count("routes.probe_after_group", 1)
		}
		if rs.Depth >= 3 {
			t.Count("routes.depth_ge_3", 1)
		}
		what := "route"
		if rs.Probe {
			what = "probe route (registered right after a Group returned)"
		}
		nLater := 0
		for _, l := range rs.LaterUse {
			nLater += len(l)
		}
		// path and handler count right after registration and at the end
		if rs.pathAtReg != rs.FullPath || rs.route.Path() != rs.FullPath {
			failing = append(failing, rs.Name)
			t.Fail("route-path", "%s %s: Path() is %q (at registration %q), the concatenated prefixes give %q", what, rs.Name, rs.route.Path(), rs.pathAtReg, rs.FullPath)
			continue
		}
		wantAtReg := len(rs.Chain) - nLater
		if !rs.LaterAtEnd {
			// immediate Route.Use calls are made by Build after the observation point
		}
		if rs.handlersAtReg != wantAtReg {
			failing = append(failing, rs.Name)
			sig := "route-middleware-count"
			if rs.Probe {
				sig = "group-residue-middleware-count"
			}
			t.Fail(sig, "%s %s (%s): carries %d middleware right after registration, its enclosing groups + own middleware give %d: %s", what, rs.Name, rs.FullPath, rs.handlersAtReg, wantAtReg, mwList(rs.Chain))
			continue
		}
		if n := len(rs.route.Handlers()); n != len(rs.Chain) {
			failing = append(failing, rs.Name)
			t.Fail("route-middleware-count-at-end", "%s %s (%s): carries %d middleware at the end, expected %d: %s", what, rs.Name, rs.FullPath, n, len(rs.Chain), mwList(rs.Chain))
			continue
		}
		// reachable under the concatenated prefixes with exactly its chain
		chain := append(append(append([]*MW{}, p.Globals...), rs.Chain...), rs.Main)
		want := OnionEvents(chain)
		path := rs.RequestPath(r)
		rec, pv, panicked := Serve(router, NewReq(rs.Method, path))
		if !panicked && p.CacheCap >= 1 && strings.Contains(rs.FullPath, "{") {
			secondPass = append(secondPass, again{rs, path, want})
			// repeat: answered from the route cache, must carry the same group/route middleware
			t.Count("routes.cache_hit_repeat", 1)
			rec, pv, panicked = Serve(router, NewReq(rs.Method, path))
		}
		if panicked {
			failing = append(failing, rs.Name)
			t.Fail("servehttp-panic", "%s %q panicked: %v", rs.Method, path, pv)
			continue
		}
		t.Tracef("%s %s: Path() %q, %d middleware; request %s %q trace %s", what, rs.Name, rs.route.Path(), len(rs.route.Handlers()), rs.Method, path, strings.Join(rec.Events, " "))
		if !eventsEqual(want, rec.Events) {
			failing = append(failing, rs.Name)
			sig := "route-chain-" + classifyTrace(want, rec.Events)
			if rs.Probe {
				sig = "group-residue-chain-" + classifyTrace(want, rec.Events)
			}
			t.Fail(sig, "%s %s: request %s %q expected chain %s\n expected trace: %s\n observed trace: %s", what, rs.Name, rs.Method, path, mwList(chain), strings.Join(want, " "), strings.Join(rec.Events, " "))
			continue
		}
		// ... and not under its bare path when it lives inside a group
		bare := normPrefix(rs.Path)
		if rs.Depth > 0 && bare != rs.FullPath && !all[rs.Method+bare] {
			bp := strings.ReplaceAll(bare, "{id}", "7")
			rec2, _, pan2 := Serve(router, NewReq(rs.Method, bp))
			t.Count("routes.unprefixed_path_404", 1)
			if pan2 || len(rec2.Events) != len(withoutFake(OnionEvents(append(append([]*MW{}, p.Globals...), nfChain(p)...)))) || hasEnter(rec2.Events, rs.Main.ID) {
				failing = append(failing, rs.Name)
				t.Fail("reachable-without-prefix", "%s %s is registered under %q but request %s %q (without the group prefixes) ran %v", what, rs.Name, rs.FullPath, rs.Method, bp, rec2.Events)
			}
		}
	}
}

func nfChain(p *Program) []*MW {
	if p.NotFoundH != nil {
		return p.NotFoundH
	}
	return []*MW{fakeTerminal}
}

func hasEnter(ev []string, id string) bool {
	for _, e := range ev {
		if e == "enter("+id+")" {
			return true
		}
	}
	return false
}

func outcomeEvents(r *Rec) []string {
	if r == nil {
		return nil
	}
	return r.Events
}

// c12PProf: pkg/pprof.UsePProf mounts its routes in Group("/debug") - a stock user of Group. Called for
// several routers of one process, at top level and inside groups with middleware, every call registers the
// same twelve routes under the prefixes and behind the middleware in effect at THAT call.
func c12PProf(t *T) {
	r := t.R
	n := 2 + r.IntN(3)
	type site struct {
		prefix string
		mw     bool
	}
	var sites []site
	for i := 0; i < n; i++ {
		switch r.IntN(3) {
		case 0:
			sites = append(sites, site{})
		case 1:
			sites = append(sites, site{prefix: fmt.Sprintf("/admin%d", i), mw: true})
		default:
			sites = append(sites, site{prefix: fmt.Sprintf("/ops%d", i)})
		}
	}
	t.Describe(func() any { return map[string]any{"UsePProf_calls(prefix, group middleware)": fmt.Sprint(sites)} })
	t.AutoSample()
	t.NonTrivial(fmt.Sprint(sites))
	var routers []*rux.Router
	for i, st := range sites {
		router := rux.New()
		id := fmt.Sprintf("guard%d", i)
		reg := func() { pprof.UsePProf(router) }
		if pv, panicked := catch(func() {
			switch {
			case st.prefix == "":
				reg()
			case st.mw:
				router.Group(st.prefix, reg, func(c *rux.Context) { recOf(c).Ev("enter(%s)", id); c.Next() })
			default:
				router.Group(st.prefix, reg)
			}
		}); panicked {
			t.Fail("registration-panic", "UsePProf call %d (%+v) panicked: %v", i+1, st, pv)
			return
		}
		routers = append(routers, router)
	}
	for i, st := range sites { // checked after ALL calls were made: a later call must not touch an earlier router
		router := routers[i]
		t.Count("stock_group_helper.routers_checked", 1)
		want := map[string]bool{}
		for _, p := range []string{"GET /pprof", "GET /heap", "GET /goroutine", "GET /allocs", "GET /block", "GET /threadcreate", "GET /cmdline", "GET /profile", "GET /symbol", "POST /symbol", "GET /trace", "GET /mutex"} {
			f := strings.SplitN(p, " ", 2)
			want[f[0]+" "+st.prefix+"/debug"+f[1]] = true
		}
		got := map[string]bool{}
		for _, ri := range router.Routes() {
			for _, m := range ri.Methods {
				got[m+" "+ri.Path] = true
			}
		}
		if d := setDiff(want, got); d != "" {
			t.Fail("route-path", "UsePProf call %d of %d (prefix %q): the registered (method path) pairs differ from /debug/* under that prefix: %s", i+1, n, st.prefix, d)
			return
		}
		rec, pv, panicked := Serve(router, NewReq("GET", st.prefix+"/debug/cmdline"))
		if panicked {
			t.Fail("servehttp-panic", "GET %s/debug/cmdline panicked: %v", st.prefix, pv)
			return
		}
		var wantEv []string
		if st.mw {
			wantEv = []string{fmt.Sprintf("enter(guard%d)", i)}
		}
		if rec.Status() != 200 || !eventsEqual(wantEv, rec.Events) {
			t.Fail("route-chain-"+classifyTrace(wantEv, rec.Events), "UsePProf call %d of %d (prefix %q, group middleware %v): GET %s/debug/cmdline answered %d with middleware trace %v, expected 200 with %v", i+1, n, st.prefix, st.mw, st.prefix, rec.Status(), rec.Events, wantEv)
			return
		}
	}
}
