#!/bin/bash
# tools/import_mutant.sh <worktree-mutant-dir> <seeded-name>
# Confirms a sub-agent's mutant independently in a scratch copy of /repo (outside
# /repo and /verif): (a) patch applies, builds, existing suite passes;
# (b) demo fails with the patch; (c) demo passes without it. Then stores it as
# /verif/seeded/<seeded-name>/{patch.diff,demo_test.go,meta.json}.
set -u
SRC="$1"; NAME="$2"
export GOFLAGS=-mod=mod GOPROXY=off GOSUMDB=off GOTOOLCHAIN=local
D=$(mktemp -d /tmp/ruximp.XXXXXX)
trap 'rm -rf "$D"' EXIT
rsync -a --exclude .git --exclude mutants /repo/ "$D/"
[ -f "$SRC/patch.diff" ] && [ -f "$SRC/demo_test.go" ] && [ -f "$SRC/meta.json" ] || { echo "IMPORT $NAME: incomplete ($SRC)"; exit 3; }
DEMODIR=$(python3 -c "import json,sys; print(json.load(open('$SRC/meta.json')).get('demo_dir','.') or '.')")
RACE=$(python3 -c "import json,sys; print('-race' if '-race' in json.load(open('$SRC/meta.json')).get('demo_cmd','') else '')")
PKGS=". ./pkg/binding ./pkg/handlers ./pkg/render"
# (c) clean tree: demo passes
cp "$SRC/demo_test.go" "$D/$DEMODIR/zz_demo_test.go"
if ! (cd "$D" && go test $RACE -vet=off -count=1 -run 'TestMutantDemo$' "./$DEMODIR" > "$D/.c.log" 2>&1); then
  echo "IMPORT $NAME: REJECT demo fails on the clean tree"; tail -5 "$D/.c.log"; exit 4
fi
rm "$D/$DEMODIR/zz_demo_test.go"
# (a) patch applies, builds, suite passes
(cd "$D" && patch -s -p1 < "$SRC/patch.diff") || { echo "IMPORT $NAME: REJECT patch does not apply"; exit 5; }
if ! (cd "$D" && go build ./... && go test -vet=off -count=1 $PKGS > "$D/.a.log" 2>&1); then
  echo "IMPORT $NAME: REJECT existing suite fails with the patch"; tail -5 "$D/.a.log"; exit 6
fi
if grep -q pprof "$SRC/patch.diff"; then (cd "$D" && go test -vet=off -count=1 ./pkg/pprof >/dev/null 2>&1) || { echo "IMPORT $NAME: REJECT pprof suite fails"; exit 6; }; fi
# (b) demo fails with the patch
cp "$SRC/demo_test.go" "$D/$DEMODIR/zz_demo_test.go"
ok=0
for i in 1 2 3; do
  if ! (cd "$D" && go test $RACE -vet=off -count=1 -run 'TestMutantDemo$' "./$DEMODIR" > "$D/.b.log" 2>&1); then ok=1; break; fi
done
[ $ok = 1 ] || { echo "IMPORT $NAME: REJECT demo passes with the patch"; exit 7; }
mkdir -p "/verif/seeded/$NAME"
cp "$SRC/patch.diff" "$SRC/demo_test.go" "/verif/seeded/$NAME/"
python3 - "$SRC/meta.json" "/verif/seeded/$NAME/meta.json" "$RACE" <<'EOF'
import json,sys
m=json.load(open(sys.argv[1]))
m["confirmed"]={"by":"tools/import_mutant.sh in a scratch copy of /repo",
 "ran":["demo passes on clean tree","patch applies; go build ./...; go test . ./pkg/binding ./pkg/handlers ./pkg/render pass with the patch","demo fails with the patch"+(" (-race)" if sys.argv[3] else "")]}
json.dump(m,open(sys.argv[2],"w"),indent=1)
EOF
echo "IMPORT $NAME: OK"
