#!/usr/bin/env python3
"""tools/merge_results.py <partial.md>: replaces / adds the rows of a partial run of
tools/run_seeded.sh (SEEDED_OUT=<partial.md> tools/run_seeded.sh quick <filter>) in
seeded/RESULTS.md, so that a harness change to one monitor does not need the whole table re-run."""
import sys, re, os
base = os.path.join(os.path.dirname(os.path.dirname(os.path.abspath(__file__))), 'seeded', 'RESULTS.md')
def rows(path):
    head, out = [], {}
    for l in open(path):
        if l.startswith('| C') :
            f = [x.strip() for x in l.strip().strip('|').split('|')]
            out[(f[0], f[2])] = l
        elif not out:
            head.append(l)
    return head, out
head, b = rows(base)
_, p = rows(sys.argv[1])
names = {k[0] for k in p}
b = {k: v for k, v in b.items() if k[0] not in names}
b.update(p)
def key(k):
    m = re.match(r'(C\d+)-m(\d+)', k[0])
    return (m.group(1), int(m.group(2)), k[1] != m.group(1), k[1])
with open(base, 'w') as f:
    f.writelines(head)
    for k in sorted(b, key=key):
        f.write(b[k])
print('merged', len(p), 'rows for', len(names), 'changes; table has', len(b), 'rows')
