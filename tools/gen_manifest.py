#!/usr/bin/env python3
"""Regenerates /verif/MANIFEST.json from the table below (kept in one place so that the
manifest stays valid and in step with the monitors that exist)."""
import json, os, subprocess, sys

VERIF = os.path.dirname(os.path.dirname(os.path.abspath(__file__)))

# property id -> (technique, level text, level note, design ref)
CLAIMED = {
    "C01": (
        "runtime monitoring: reference-model monitor (independent AST matcher + documented priority) run in lock-step with Router.Match / ServeHTTP over generated route tables and hostile probes",
        "Every Match/ServeHTTP result observed on generated tables (grammar-based, overlapping patterns, all 9 methods, near-miss probes) is compared with an executable re-statement of the documented semantics; soundness and completeness are both asserted. Held = no disagreement on the executions observed (about 7e5 probes quick, 3e7 thorough).",
        "Trusted: the pattern AST matcher in harness/mon/pat.go and the class regexes; tables <= 12 routes, grammar of the property's quantifier.",
        "DESIGN.md section 4 C01",
    ),
    "C02": (
        "runtime monitoring: trace/reference monitor comparing the Params seen by Match and by handlers with all decompositions found by an independent backtracking matcher; cache hit vs miss comparison",
        "For every selected route the observed parameter map must be one of the decompositions of the normalised path under the pattern AST (which implies key set, round trip and class satisfaction; equality when unique), static routes expose none, handler view equals Match view, cache hits equal misses.",
        "Trusted: the AST matcher; a handler may edit its own Params map in place (it is checked that this never reaches another request or a later Match); ambiguous decompositions (spanning classes) are only checked for membership.",
        "DESIGN.md section 4 C02",
    ),
    "C03": (
        "runtime monitoring: (A) handler-boundary scheduler producing chosen interleavings of 2..4 in-flight requests, each request compared with its solo run; (B) free-running stress in a -race build with race-report parsing/attribution, solo-outcome comparison and cache invariant hook; (C) porcupine linearizability check of concurrent cache histories",
        "Tens of thousands of distinct schedules per quick run (all interleavings for request pairs with <= 4 points), over router shapes with global middleware added by several Use calls, caches of capacity 1..3, HEAD fallback, 404/405 and recovered-panic prologues: every request's trace, params and response equal its solo run and in-flight requests never share a context; 160k (quick) free-running requests under the race detector with zero reports attributed to the router; concurrent cache histories linearizable.",
        "Trusted: solo run on a fresh identical router as specification. Race detector sees executed access pairs only; interleavings inside library code are reached only as far as the Go scheduler produces them (B), exactly at handler boundaries (A).",
        "DESIGN.md section 4 C03, section 5",
    ),
    "C04": (
        "runtime monitoring: trace-specification monitor - enter/leave events recorded by instrumented handlers are compared with the trace predicted by a reference scope model + onion interpreter over generated registration programs",
        "For every route of every generated registration program (nested Group/Controller, Use at any point incl. after routes, variadic and later Route.Use middleware, NotFound/NotAllowed, handlers calling Next 0/1/2 times) the recorded per-request trace must equal the predicted one; also for not-found and wrong-method requests.",
        "Trusted: scope model and onion interpreter in harness/mon/prog.go. The generated programs keep chains short; a separate part drives chains of 40..327 entries (global middleware on top of a full route chain) in which nobody aborts.",
        "DESIGN.md section 4 C04",
    ),
    "C05": (
        "runtime monitoring: trace-specification monitor with a specification-level interpreter of Next/Abort; IsAborted() sampled at entry, around the abort call and at leave of every handler; small-scope exhaustive chain shapes + sampled long chains up to the handler limit",
        "All chains of length 1..7 (quick) / 1..9 (thorough) x aborter position x 4 abort APIs x before/after/without Next x extra Next x all subsets of Next-calling handlers x committed-or-not, plus sampled chains of 9..140 handlers (optionally behind a recover or a buffering middleware, or on a writer whose first write fails) and a second, non-aborting request after every aborted one: no handler starts after the abort, suspended handlers resume, IsAborted is false before / true after, AbortWithStatus decides the status unless already committed.",
        "Trusted: the 30-line specification interpreter in harness/mon/c05.go. A route's own chain stays within the registration limit of 63; global middleware makes executed chains of up to 140 entries. No known finding is open (the former KF1 is repaired, fix 4aae171).",
        "DESIGN.md section 4 C05",
    ),
    "C08": (
        "runtime monitoring: reference state-machine monitor (unset -> recorded -> committed) over the ordered WriteHeader/Write/Flush call log of a recording ResponseWriter with injected write faults; small-scope exhaustive operation sequences + random programs spread over handler chains",
        "All sequences of <= 4 operations over a 9-operation alphabet x 4 writer fault plans, plus random programs of 13 operation kinds over 1..4 handlers (before/after Next), with/without an OnError hook: exactly one WriteHeader, first, carrying the last positive status before the commit point; body = accepted bytes in order; Length() = their count; silent chains commit once at the end.",
        "Trusted: the 60-line response model in harness/mon/c08.go incl. its expansion of helpers (http.Error, Redirect, Text, JSON, NoContent) into primitives. Forwarding of zero-length writes is not asserted.",
        "DESIGN.md section 4 C08",
    ),
    "C09": (
        "runtime monitoring: fault injection at handler boundaries (header-armed panics at every chain position / phase / OnError) with a trace-specification monitor for the recovery path and a twin-router comparison of all follow-up requests, incl. an overlapping (nested) pair on the pooled contexts",
        "For each generated history: with an OnPanic hook the panic does not escape, the hook runs once with the same value, no handler is entered afterwards, and the writer log equals the C08 model over (ops before the panic, hook ops, end of request); without a hook the same value propagates; afterwards every request (incl. two in flight at once) behaves as on a freshly built identical router.",
        "Trusted: C08 response model, C04 scope model, comparable panic values; PanicsHandler only checked for containment / single commit / health.",
        "DESIGN.md section 4 C09",
    ),
    "C10": (
        "runtime monitoring: twin-execution monitor over request histories with context-dirtying handlers; first-handler snapshot of the pooled context compared with the same request on a freshly built router; context reuse measured by pointer identity",
        "For every request of every history (static, dynamic, 404, 405, aborted, erroring, panicking-with-hook, nested) the snapshot taken by the first handler (data keys, params, errors, abort state, status, length, writer/request identity) and the outcome equal those of the same request sent first to a fresh identical router; tens of thousands of observed context reuses after a dirtying predecessor per run.",
        "Trusted: a fresh identical router as the specification of pristine; sequential histories (sync.Pool reuse is measured: zero reuse => inconclusive).",
        "DESIGN.md section 4 C10",
    ),
    "C11": (
        "runtime monitoring: reference-normaliser monitor; small-scope exhaustive strings for totality/reflexivity (recover-observed), sampled pairs for equivalence on the unambiguous sub-language, server-style parsed request targets for the decoded/escaped path source",
        "All strings up to length 5 (quick) / 7 (thorough) over {'/',' ','.','a','b',TAB} under both StrictLastSlash settings never panic as registered path, group prefix or request path and are reflexive; tens of thousands of (P,Q[,G]) pairs agree with N(P)==N(Q) <=> reached, Route.Path()==N(P); targets with %41/%2F/%20/%61 reach the route registered under URL.Path by default and under EscapedPath() with UseEncodedPath (static and dynamic).",
        "Trusted: RefNormalize in harness/mon/pat.go, defined only on ws* '/'* core '/'* ws*; strings outside it get totality + reflexivity only.",
        "DESIGN.md section 4 C11",
    ),
    "C12": (
        "runtime monitoring: reference scope-model monitor over generated registration programs with probe routes after every Group return; Route.Path()/Handlers() observed at registration and at the end, per-route request traces, negative probes without the prefix",
        "Every route (incl. Controller registrations and probe routes registered right after each Group return) must carry exactly the concatenated prefixes and exactly the middleware of its enclosing groups in effect at registration; reachable under the full path with exactly that chain and not under the bare path.",
        "Trusted: scope model in harness/mon/prog.go; clean non-root prefixes ('' and '/' only at top level).",
        "DESIGN.md section 4 C12",
    ),
    "C06": (
        "runtime monitoring: reference-model monitor of the documented fallback order (direct, HEAD->GET, '/*', 405/Allow, 404, InterceptAll) run in lock-step with Match and ServeHTTP over generated tables x option sets",
        "Every probe's outcome (route / allowed set via Match; status, Allow header, body, CTXAllowedMethods via ServeHTTP, default and custom fallback handlers) is compared with an executable statement of the resolution order over all 2^k option combinations sampled per table.",
        "Trusted: AST matcher + the 30-line resolution model in harness/mon/c06.go; ranking among several direct qualifiers is C01's business (the documented winner, or the other direct qualifier of the same stage, is accepted here).",
        "DESIGN.md section 4 C06",
    ),
    "C07": (
        "runtime monitoring: twin-execution monitor (same router built with and without the route cache) compared step by step over generated request histories; reference LRU predicts hits/evictions so that every history exercises them",
        "For each request of each history the twins must agree on Match (route, params, allowed set) and ServeHTTP (handler trace with params seen by every handler, status, headers, body), for capacities 0,1,2,3,5,1000, with HEAD fallbacks, 405 probes, 404s and evictions.",
        "Trusted: the uncached twin as specification; handlers read-only on Params; registration finished before the first request.",
        "DESIGN.md section 4 C07",
    ),
    "C13": (
        "runtime monitoring: (a) negative oracle by construction - generated definitions invalid for exactly one documented reason must panic at registration (recover-observed), valid neighbours must not; (b) totality monitor - fuzzed definitions x option sets, whatever is accepted is probed through Match/QuickMatch/ServeHTTP with hostile methods and paths, any panic out of the router is a violation; child process with in-flight journal for process-fatal events",
        "20k (quick) / 1M (thorough) invalid definitions over 8 reasons and ~40 registration shapes all rejected; 25k / 2M fuzzed definitions (35% accepted) x ~190 hostile probes each without a panic, incl. caching on routers without routes, InterceptAll with blank paths, non-UTF-8, 4 KiB paths.",
        "Trusted: the generators' classification of definitions as invalid-by-construction (checked against valid neighbours). The handler limit is the per-route limit (group + route middleware); global middleware is not counted by registration.",
        "DESIGN.md section 4 C13",
    ),
    "C14": (
        "runtime monitoring: lock-step reference-model monitor (list-based LRU) with invariant hook on the live cache after every step, small-scope exhaustive operation sequences + random ones; router-level trace check of cache keys after each dynamic request; porcupine linearizability check of concurrent histories",
        "All operation sequences of length 5 (quick) / 6-7 (thorough) over 3 keys x capacities 0..4 plus random long sequences are compared step by step (return values, Len, recency order, stored values, structure); on caching routers every resolved dynamic request must leave exactly method+normalised path in front and its repeat must be served from the cache; concurrent Get/Set/Has/Delete/Len histories must be linearizable w.r.t. the sequential model.",
        "Trusted: the 40-line reference LRU; verif hooks read the cache under its own lock. Has is only issued where recency cannot matter (sequential) or modelled as may-or-may-not refresh (concurrent).",
        "DESIGN.md section 4 C14, section 5.3",
    ),
    "C15": (
        "runtime monitoring: round-trip monitor - BuildURL -> String() -> server-style parse -> Match/ServeHTTP on the same router, params and query compared with the supplied arguments; GetRoute checked against a model of 'most recently registered under the name' over sequences of naming-API calls",
        "For named routes (static / 1..3 variables, 5 regex classes, literal affixes) registered through all four naming APIs incl. re-registrations and re-namings, and hostile value pools (blanks, non-ASCII, %, %2F, ?, #, +, &, placeholder look-alikes), every built URL is routed back to the same route with exactly the supplied values in all three argument styles (each built repeatedly: map order is input), extras appear exactly as query parameters.",
        "Trusted: net/url as the server-side parser. Values that would put white space / '/' at the very end of the path are excluded (normalisation removes them by design).",
        "DESIGN.md section 4 C15",
    ),
    "C16": (
        "runtime monitoring: exhaustive configuration sweep with a reference-table monitor - all 256 generated controller types registered on fresh routers, registered triples / named routes / answers to a full probe matrix compared with the documented REST table filtered by the implemented subset",
        "All 128 action subsets x with/without Uses() x 3 base paths x inside/outside groups (incl. middleware slices with spare capacity), repeated (map iteration order inside Resource varies): registered (method, path, name) triples equal the documented table, every probe of 9 methods x 9 paths is answered by the expected action / 405 with the exact Allow set / 404, Uses() middleware runs only for its action, /res/create is never served by show when create exists, non-pointer / non-struct controllers are rejected.",
        "Trusted: the seven-row table in harness/mon/c16.go and the C06 resolution model. Non-strict mode; base paths end in '/'.",
        "DESIGN.md section 4 C16",
    ),
    "C17": (
        "runtime monitoring: negative-oracle (canary) monitor over hostile request paths against real file trees - every outside file carries a canary token, every 200 body must equal a file under the root byte for byte; extension-filter oracle for StaticFiles",
        "StaticDir / StaticFiles / StaticFS / StaticFile under two prefixes, with/without UseEncodedPath and StrictLastSlash, driven with a grammar of hostile paths (dot-dot raw/encoded/double-encoded, back-slashes, NUL, absolute paths, over-long chains, outside names, near-miss extensions) both as raw URL.Path and as parsed request targets: no canary and no outside name in any response, served bytes are root files, StaticFiles only answers paths ending in an allowed extension, StaticFile only its file, no panic.",
        "Trusted: the sandbox tree written by the monitor itself under work/. Symlinks are out of scope.",
        "DESIGN.md section 4 C17",
    ),
    "C18": (
        "runtime monitoring: decision-table monitor (query and body carry different data, so the bound value reveals the source), round-trip monitor with independent encoders, fuzzed malformed bodies (recover-observed), recording validator hook",
        "All 9 methods x 16 content types x 4 entry points agree with the documented source selection (incl. a key present only in the query must not reach a body bind); struct values round-trip through form, multipart, JSON, XML and query via Auto/Bind/ShouldBind/BindX; thousands of malformed bodies yield error-or-success and never a panic, documents an independent decoder refuses are not reported as success; a successful bind implies the validator ran on the bound object and accepted it, a disabled validator is never called.",
        "Trusted: encoding/json, encoding/xml, mime/multipart, net/url as independent encoders/decoders. Single-threaded (package-global validator). Every bind uses a fresh request.",
        "DESIGN.md section 4 C18",
    ),
    "C19": (
        "runtime monitoring: per-helper output oracle over generated values incl. unencodable ones - status/Content-Type read from the recording writer at commit time, bodies decoded by independent decoders and compared with the input; negotiation model for render.Auto; short call histories so that failures precede successes",
        "12 Context helpers and 11 pkg/render entry points x 16 statuses x strings/maps/structs/bytes/unencodable values x preset or absent Content-Type x generated Accept lists: status as given (200 for <= 0), documented or preserved Content-Type, body decodes to the value (JSONP unwrapped), Auto picks the first supported type, encoding failures surface in c.Errors or the returned error, never a panic; Stream with readers with/without WriteTo, one-byte reads and failures.",
        "Trusted: encoding/json and encoding/xml as decoders; the documented Content-Type constants. text/html is never generated in front of a supported Accept type.",
        "DESIGN.md section 4 C19",
    ),
    "C20": (
        "runtime monitoring: gate oracles by construction - Authorization headers generated by class with known verdicts, method-override value/carrier matrix, wrapper lists (same slice re-wrapped, sub-slices) and wrapped http.Handlers at random chain positions, all observed through enter/leave events and the recording writer",
        "HTTPBasicAuth as route/group/global middleware over account maps incl. nil/empty/empty passwords/':' in passwords: downstream ran iff well-formed and (no accounts or password equal), else 401+challenge or 403 and no downstream event; HTTPMethodOverrideHandler rewrites only POST to PUT/PATCH/DELETE (any letter case, form field before header, body or query) and records the original method exactly then; WrapHTTPHandlers keeps the first listed wrapper outermost across repeated calls on the same slice; WrapHTTPHandler* handlers run once at their position and the chain continues.",
        "Trusted: Go's Request.BasicAuth as the definition of well-formed Basic credentials; user names without ':'.",
        "DESIGN.md section 4 C20",
    ),
}

PENDING_REASON = "monitor designed in DESIGN.md section 4 but not built yet in this round; not claimed until its check exists and is silent on the unchanged tree"


def main():
    ids = [json.loads(l)["id"] for l in open(os.path.join(VERIF, "properties.jsonl"))]
    hooks_commit = "b60450a"
    checks = []
    for pid in ids:
        if pid not in CLAIMED:
            continue
        tech, text, note, ref = CLAIMED[pid]
        checks.append({
            "property_id": pid,
            "quick_cmd": f"./check.sh {pid} quick",
            "thorough_cmd": f"./check.sh {pid} thorough",
            "evidence_file": f"/verif/evidence/{pid}.json",
            "replay_cmd_template": f"./check.sh {pid} quick --replay {{path}}",
            "engine": "ruxmon",
            "level_claimed": {"category": "exploration", "text": text, "design_ref": ref},
            "level_note": note,
            "technique": tech,
        })
    na = [{"property_id": pid, "reason": PENDING_REASON} for pid in ids if pid not in CLAIMED]
    m = {
        "version": 1,
        "setup_cmd": "./setup.sh",
        "hooks": {
            "guard": "verif",
            "enable": "go build -tags verif (the harness module /verif/harness replaces github.com/gookit/rux by /repo; check.sh rebuilds on every invocation)",
            "baseline_off_cmd": "cd /repo && GOFLAGS=-mod=mod GOPROXY=off GOSUMDB=off GOTOOLCHAIN=local go test -vet=off -count=1 -timeout 25m ./...",
            "source_commits": [hooks_commit],
            "add_only": True,
        },
        "engines": [{
            "name": "ruxmon",
            "path": "/verif/harness",
            "serves_properties": [c["property_id"] for c in checks],
            "kind_free_text": "Go harness compiled together with /repo's working tree (-tags verif, plus a -race build for the concurrency monitors): reference-model monitors, trace checkers over recorded handler/ResponseWriter events, invariant hooks on the route cache, a handler-boundary scheduler, race detector, porcupine linearizability checker. Child process per run with an in-flight journal; exit 0/1/2.",
        }],
        "checks": checks,
        "notes": "Technique family: runtime monitoring and sanitizers. KNOWN_FINDINGS.txt lists known findings (suppressed by machine-computed signature) and repaired defects (fix: commits in /repo). Exit 2 = broken or inconclusive run, never a pass.",
        "not_applicable": na,
    }
    with open(os.path.join(VERIF, "MANIFEST.json"), "w") as f:
        json.dump(m, f, indent=1)
        f.write("\n")
    # validate
    try:
        import jsonschema
        schema = json.load(open("/root/.vp/MANIFEST.schema.json"))
        jsonschema.validate(m, schema)
        print("MANIFEST.json valid;", len(checks), "claimed,", len(na), "not claimed")
    except ImportError:
        print("jsonschema not available; wrote MANIFEST.json without validation")


if __name__ == "__main__":
    main()
