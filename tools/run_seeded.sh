#!/bin/bash
# tools/run_seeded.sh [tier] [name-filter]
# Runs every seeded mutant in /verif/seeded against the check of the property it
# breaks (and the extra checks listed in seeded/<name>/also.txt, if present) on a
# scratch copy of /repo, and writes seeded/RESULTS.md. /repo itself is not touched.
set -u
TIER="${1:-quick}"
FILTER="${2:-}"
cd "$(dirname "${BASH_SOURCE[0]}")/.."
OUT="${SEEDED_OUT:-seeded/RESULTS.md}"   # SEEDED_OUT: write a partial table elsewhere (see tools/merge_results.py)
TMP=$(mktemp)
echo "| seeded change | breaks | check | tier | result | first signature |" > "$TMP"
echo "|---|---|---|---|---|---|" >> "$TMP"
miss=0
for d in seeded/*/; do
  name=$(basename "$d")
  [ -f "$d/patch.diff" ] || continue
  [ -n "$FILTER" ] && [[ "$name" != *$FILTER* ]] && continue
  prop=$(python3 -c "import json;print(json.load(open('$d/meta.json'))['property'])")
  checks="$prop"
  [ -f "$d/also.txt" ] && checks="$checks $(cat "$d/also.txt")"
  for c in $checks; do
    log=$(tools/mutant_run.sh "patch:$PWD/$d/patch.diff" "$c" "$TIER" 2>&1)
    rc=$(echo "$log" | sed -n 's/^mutant_run: .* -> exit \([0-9]*\)$/\1/p')
    sig=$(echo "$log" | sed -n 's/^  signature=\([^ ]*\) .*/\1/p' | head -1)
    case "$rc" in
      1) res="DETECTED" ;;
      0) res="missed"; miss=$((miss+1)) ;;
      *) res="broken/inconclusive (exit $rc)"; miss=$((miss+1)) ;;
    esac
    echo "| $name | $prop | $c | $TIER | $res | ${sig:-} |" >> "$TMP"
    echo "$name vs $c: $res ${sig:-}"
  done
done
{
  echo "# Seeded changes vs. checks"
  echo
  echo "Produced by tools/run_seeded.sh ($TIER tier, VERIF_SEED=${VERIF_SEED:-1}). Each change was written by an independent"
  echo "sub-agent that saw only the property text (see seeded/<name>/meta.json), confirmed by tools/import_mutant.sh,"
  echo "and is applied to a scratch copy of /repo for the run."
  echo
  cat "$TMP"
} > "$OUT"
rm -f "$TMP"
echo "not detected: $miss"
