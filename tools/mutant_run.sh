#!/bin/bash
# tools/mutant_run.sh <revert:COMMIT | patch:FILE> <ID> [tier]  -- run a check against a scratch
# copy of /repo carrying a mutation (development aid: validates that a monitor fires).
# The scratch copy lives under /tmp and is removed afterwards; /repo is not touched.
set -u
SPEC="$1"; ID="$2"; TIER="${3:-quick}"
D=$(mktemp -d /tmp/ruxmut.XXXXXX)
trap 'rm -rf "$D"' EXIT
rsync -a --exclude .git /repo/ "$D/"
case "$SPEC" in
  revert:*) git -C /repo diff "${SPEC#revert:}^" "${SPEC#revert:}" | (cd "$D" && patch -s -R -p1) || { echo "cannot revert"; exit 3; } ;;
  patch:*)  (cd "$D" && patch -s -p1 < "${SPEC#patch:}") || { echo "cannot apply"; exit 3; } ;;
  none) ;;
esac
export VERIF_REPO="$D"
# do not clobber committed evidence / replays while experimenting
export VERIF_OUT="$D/.verif-out"
/verif/check.sh "$ID" "$TIER"
rc=$?
echo "mutant_run: $SPEC $ID $TIER -> exit $rc"
exit $rc
